//go:build verif && (c08 || allprops)

package main

import (
	stdcontext "context"
	"encoding/base64"
	"encoding/json"
	"fmt"
	"io"
	"math/rand"
	"net/http"
	"net/http/httptest"
	"sort"
	"strings"

	"github.com/go-openapi/errors"
	"github.com/go-openapi/loads"
	"github.com/go-openapi/runtime"
	"github.com/go-openapi/runtime/middleware"
	"github.com/go-openapi/runtime/middleware/header"
	"github.com/go-openapi/runtime/middleware/untyped"
	"github.com/go-openapi/runtime/security"
)

// C08 — responses carry the declared status, the negotiated type and that type's encoding. Cases:
//   serve    one request through the real API handler (router, security, validation, handler, Respond) of a
//            one-operation description, with instrumented producers and an instrumented error responder
//   direct   Context.Respond called directly (nil route / route without operation / produces argument different
//            from the route's / a response format already stored in the request / a basic authenticator that examined
//            the request first: the marker it leaves is compared with the model's and decides the challenge)
//   routing  a request that matches no operation (unknown path: 404; known path, other method: 405) through the real API
//            handler: the router hands the error to Respond with everything the description produces (top-level and
//            per-operation produces) as offers and no route; emitted as a CDirect case with that list as argument
//   hist     2-5 requests answered one after the other by ONE Context (one API handler) of a description with several
//            operations: same path under different methods, different paths, operations with and without operationId,
//            different declared success codes and produces lists, security requirements with several alternatives and
//            several schemes per alternative (one basic scheme, two api-key schemes, the anonymous alternative; the basic
//            scheme in every position). Every answer is compared with the model of the single request AND with the answer
//            a fresh Context gives to the same request. A history of one request is the single-call case of a requirement
//            with several alternatives.

type c08In struct {
	Kind     string `json:"kind"`              // serve | direct
	Defaults string `json:"defaults"`          // json | none | custom
	Default  Bs     `json:"default,omitempty"` // custom: the API default produces
	Produces []Bs   `json:"produces"`          // operation-level produces as declared
	Register []Bs   `json:"register"`          // media types handed to RegisterProducer
	Lines    []Bs   `json:"lines,omitempty"`   // Accept header lines
	Method   string `json:"method"`            // HEAD GET POST
	Codes    []int  `json:"codes"`             // declared response codes, 0 = default
	Data     string `json:"data"`              // value | nil | resp:<code> | notimpl | custom | err:<code> | err:plain | err:composite:<code>
	Auth     string `json:"auth,omitempty"`    // "" | basic
	Realm    Bs     `json:"realm,omitempty"`
	Attempt  string `json:"attempt,omitempty"`  // none | bad | good (SetBasicAuth u:<attempt>) | raw (the Authorization header is Authz as it stands)
	Authz    Bs     `json:"authz,omitempty"`    // raw: value of the Authorization header (may be empty: header present, no value)
	Variant  string `json:"variant,omitempty"`  // "" BasicAuthRealm | ctx BasicAuthRealmCtx | default BasicAuth | default-ctx BasicAuthCtx (the last two: realm not configurable)
	ErrCode  int    `json:"err_code,omitempty"` // code of the error the authentication function returns
	// direct only
	Arg         []Bs   `json:"arg,omitempty"`          // produces argument of Respond
	Route       string `json:"route,omitempty"`        // nil | real | noop
	CacheOffers []Bs   `json:"cache_offers,omitempty"` // ResponseFormat is called with these first (stores its answer)
	UseCache    bool   `json:"use_cache,omitempty"`
	// the order of configuration: numbers of the recording error responders assigned to api.ServeError BEFORE the Context /
	// handler is built from the API and AFTER that (before the request is served). Both empty = [1] before (the usual order).
	RBefore []int `json:"r_before,omitempty"`
	RAfter  []int `json:"r_after,omitempty"`
	// routing only: the request matches no operation. Miss = path (Method on MissPath, a path no operation has under any
	// method: 404) | method (Method on /x, which has an operation under another method only: 405). Global = the top-level
	// produces of the description; Produces = those of the one operation. Data is err:404 / err:405 (what the router hands on).
	Miss     string `json:"miss,omitempty"`
	MissPath string `json:"miss_path,omitempty"`
	Global   []Bs   `json:"global,omitempty"`
	// hist only (Produces, Method, Codes, Data, Auth, Attempt, Authz, Lines are per operation / per step there)
	Ops   []c08Op   `json:"ops,omitempty"`
	Steps []c08Step `json:"steps,omitempty"`
}

// one operation of a hist description
type c08Op struct {
	Method   string     `json:"method"`
	Path     string     `json:"path"`               // /x | /y | /x/{id}
	ID       string     `json:"id,omitempty"`       // operationId; empty = the operation has none
	Codes    []int      `json:"codes"`              // declared response codes, 0 = default
	Produces []Bs       `json:"produces,omitempty"` // operation-level produces
	Security [][]string `json:"security,omitempty"` // alternatives, each a set of scheme names (basic, k1, k2); an empty alternative = anonymous
}

// one request of a history
type c08Step struct {
	Op      int               `json:"op"`
	Lines   []Bs              `json:"lines,omitempty"`
	Attempt string            `json:"attempt,omitempty"` // basic credentials, as in c08In
	Authz   Bs                `json:"authz,omitempty"`
	Keys    map[string]string `json:"keys,omitempty"` // api-key scheme -> token sent ("" none, good, bad<code>)
	Data    string            `json:"data"`
	RInstall []int            `json:"r_install,omitempty"` // error responders assigned to the shared API just before this request
}

type c08Call struct {
	Key Bs `json:"key"`
	Tag Bs `json:"tag"`
}

type c08Obs struct {
	Panic      int       `json:"panic,omitempty"` // 0 none, 1 nil dereference, 2 can't find a producer, 3 other
	PanicText  string    `json:"panic_text,omitempty"`
	Default    Bs        `json:"api_default"`
	Registered []Bs      `json:"registered"`     // keys under which producers are registered (after Register*'s normalisation)
	RouteProd  []Bs      `json:"route_produces"` // MatchedRoute.Produces in the order the route uses
	Cached     *Bs       `json:"cached,omitempty"`
	Marker     Bs        `json:"marker,omitempty"`
	CType      Bs        `json:"ctype"`
	Status     int       `json:"status"`
	WWW        []Bs      `json:"www,omitempty"`
	Calls      []c08Call `json:"calls,omitempty"`
	Body       Bs        `json:"body,omitempty"`
	Errs       []int     `json:"errs,omitempty"`
	Ran        bool      `json:"ran,omitempty"`
	Invoked    []int     `json:"invoked,omitempty"` // numbers of the error responders called, in order
	// hist
	Alts  [][]string   `json:"alts,omitempty"`  // a step: the route's alternatives, schemes in the order the route consults them
	Steps []c08StepObs `json:"steps,omitempty"` // the case: one entry per request
}

// what one request of a history was answered inside the history and by a fresh Context
type c08StepObs struct {
	Hist       c08Obs `json:"hist"`
	Fresh      c08Obs `json:"fresh"`
	Comparable bool   `json:"comparable"` // the fresh Context consults the schemes in the same order (Go map iteration decides it per router)
}

type c08 struct{}

func init() { register(c08{}) }

func (c08) ID() string        { return "C08" }
func (c08) CoqModule() string { return "Check_C08" }
func (c08) Rule() string {
	return "exhaustive matrix {HEAD,GET,POST} x declared codes {200,201,204,default-only,several,non-2xx+2xx,none} x handler outcomes " +
		"{value,nil,errorResp(0/404),NotImplemented,custom Responder,error(coded/plain/composite)} x produces shapes (empty, with parameters, several, default included) x {no Accept, Accept}; " +
		"random: produces lists with parameters/case variants/duplicates, default producer json/none/custom, registrations complete/partial/raw, Accept headers from a range grammar, " +
		"Accept headers that are PRESENT and name no media range (empty value, blanks, separators only, several such lines, values the parser gives up on at the first byte; category empty-accept): enumerated over " +
		"codes x handler outcomes x produces shapes through the handler and a direct Respond, with basic auth, for routing errors, randomly one Accept header in nine, and in histories where one operation is asked " +
		"again with the header absent / present without a range / with ranges (every ordered pair); " +
		"basic auth: the four authenticator constructors (BasicAuthRealm, BasicAuthRealmCtx, BasicAuth, BasicAuthCtx) x realms (quotes, backslashes, empty) x credentials " +
		"{no header, empty header, refused, accepted, Basic scheme without usable credentials (scheme only, not base64, no colon, bad padding, stray characters), other schemes (Bearer, Digest, ...), " +
		"usable credentials in unusual dress (scheme case, empty user or password)} - exhaustively over a fixed table and randomly, through the handler and through a direct Respond after the authenticator ran " +
		"(what a header yields is net/http's Request.BasicAuth, consulted per case); direct Respond calls with nil route, route without operation, foreign produces argument, pre-stored format, realm marker. " +
		"routing errors: requests for a path no operation has (404) and for a known path under an undeclared method (405) through the real API handler, descriptions with top-level and per-operation produces lists, " +
		"Accept headers naming a produced non-default type / the default / nothing produced / ranges, restricted to those whose negotiation does not depend on the order of the offers (the router reads them from a map) - enumerated and one random case in ten. " +
		"Non-trivial: the answer is produced by Respond with at least two offers, or a body is written, or an error/406/401 path is taken with a negotiated type."
}

func (c08) Decode(raw json.RawMessage) (any, error) {
	var in c08In
	err := json.Unmarshal(raw, &in)
	return in, err
}

// ---- instrumentation ----

type c08Payload struct{ tag string }

type c08Log struct {
	calls   []c08Call
	errs    []int
	invoked []int
}

type c08Producer struct {
	key string
	log *c08Log
}

func c08Tag(v interface{}) string {
	switch x := v.(type) {
	case nil:
		return "nil"
	case string:
		return x
	case c08Payload:
		return x.tag
	case *c08Payload:
		return x.tag
	default:
		return "?"
	}
}

func (p *c08Producer) Produce(w io.Writer, v interface{}) error {
	t := c08Tag(v)
	p.log.calls = append(p.log.calls, c08Call{Bs(p.key), Bs(t)})
	_, err := w.Write([]byte(p.key + ":" + t))
	return err
}

// c08Writer records the first explicit WriteHeader, the headers and the body.
type c08Writer struct {
	h      http.Header
	status int
	body   []byte
}

func (w *c08Writer) Header() http.Header { return w.h }
func (w *c08Writer) WriteHeader(c int) {
	if w.status == 0 {
		w.status = c
	}
}
func (w *c08Writer) Write(b []byte) (int, error) { w.body = append(w.body, b...); return len(b), nil }

func c08ErrCode(err error) int {
	if ce, ok := err.(*errors.CompositeError); ok && len(ce.Errors) > 0 {
		return c08ErrCode(ce.Errors[0])
	}
	if c, ok := err.(interface{ Code() int32 }); ok {
		return int(c.Code())
	}
	return 0
}

// ---- setup ----

func c08Doc(in c08In) string {
	op := map[string]any{}
	if len(in.Produces) > 0 {
		op["produces"] = bsList(in.Produces)
	}
	resp := map[string]any{}
	for _, c := range in.Codes {
		if c == 0 {
			resp["default"] = map[string]any{"description": "d"}
		} else {
			resp[fmt.Sprint(c)] = map[string]any{"description": "r"}
		}
	}
	op["responses"] = resp
	doc := map[string]any{
		"swagger": "2.0", "info": map[string]any{"title": "t", "version": "1"},
		"paths": map[string]any{"/x": map[string]any{strings.ToLower(c08OpMethod(in)): op}},
	}
	if len(in.Global) > 0 {
		doc["produces"] = bsList(in.Global)
	}
	if in.Auth == "basic" {
		op["security"] = []any{map[string]any{"basic": []string{}}}
		doc["securityDefinitions"] = map[string]any{"basic": map[string]any{"type": "basic"}}
	}
	b, _ := json.Marshal(doc)
	return string(b)
}

// c08OpMethod: the method under which the one operation of the description is declared.
func c08OpMethod(in c08In) string {
	if in.Kind == "routing" && in.Miss == "method" {
		if in.Method == "GET" {
			return "POST"
		}
		return "GET"
	}
	return in.Method
}

// c08AllProduces: everything the description of a routing case produces (top-level and operation), each once, sorted.
func c08AllProduces(in c08In) []Bs {
	seen := map[Bs]bool{}
	var out []Bs
	for _, l := range [][]Bs{in.Global, in.Produces} {
		for _, p := range l {
			if !seen[p] {
				seen[p] = true
				out = append(out, p)
			}
		}
	}
	sort.Slice(out, func(i, j int) bool { return out[i] < out[j] })
	return out
}

// c08OrderFree: the negotiation between the Accept lines and the offers (those that are not the API default in ANY order,
// then the default) has the same winner whatever the order. The router takes the list from a Go map, so only such inputs
// have one right answer.
func c08OrderFree(lines []Bs, all []Bs, def string) bool {
	var rest []string
	for _, p := range all {
		if string(p) != def {
			rest = append(rest, string(p))
		}
	}
	if len(rest) > 4 {
		return false
	}
	req := httptest.NewRequest("GET", "/", nil)
	if len(lines) > 0 {
		req.Header["Accept"] = bsList(lines)
	}
	first, have, same := "", false, true
	var perm func(k int)
	perm = func(k int) {
		if k == len(rest) {
			offers := append(append([]string{}, rest...), def)
			got := middleware.NegotiateContentType(req, offers, "")
			if !have {
				first, have = got, true
			} else if got != first {
				same = false
			}
			return
		}
		for i := k; i < len(rest); i++ {
			rest[k], rest[i] = rest[i], rest[k]
			perm(k + 1)
			rest[k], rest[i] = rest[i], rest[k]
		}
	}
	perm(0)
	return same
}

func c08Data(s string) (interface{}, string) {
	switch {
	case s == "value":
		return c08Payload{"v"}, "v"
	case s == "nil":
		return nil, "nil"
	case strings.HasPrefix(s, "resp:"):
		var code int
		fmt.Sscanf(s[5:], "%d", &code)
		return middleware.Error(code, c08Payload{"p"}, http.Header{"X-Extra": []string{"1"}}), "p"
	case s == "notimpl":
		return middleware.NotImplemented("ni"), "ni"
	case s == "custom":
		return middleware.ResponderFunc(func(rw http.ResponseWriter, p runtime.Producer) {
			rw.WriteHeader(202)
			_ = p.Produce(rw, c08Payload{"c"})
		}), "c"
	case s == "err:plain":
		return fmt.Errorf("plain"), ""
	case strings.HasPrefix(s, "err:composite:"):
		var code int
		fmt.Sscanf(s[14:], "%d", &code)
		return errors.CompositeValidationError(errors.New(int32(code), "inner")), ""
	case strings.HasPrefix(s, "err:"):
		var code int
		fmt.Sscanf(s[4:], "%d", &code)
		return errors.New(int32(code), "boom"), ""
	}
	panic("bad data kind " + s)
}

// c08CoqData renders the data kind for the model.
func c08CoqData(s string) string {
	switch {
	case s == "value", s == "nil":
		return "DValue"
	case strings.HasPrefix(s, "resp:"):
		var code int
		fmt.Sscanf(s[5:], "%d", &code)
		return fmt.Sprintf("(DResponder %s)", coqZ(int64(code)))
	case s == "notimpl":
		return "(DResponder (501)%Z)"
	case s == "custom":
		return "(DResponder (202)%Z)"
	case s == "err:plain":
		return "(DError 0)"
	case strings.HasPrefix(s, "err:composite:"):
		var code int
		fmt.Sscanf(s[14:], "%d", &code)
		return fmt.Sprintf("(DError %d)", code)
	case strings.HasPrefix(s, "err:"):
		var code int
		fmt.Sscanf(s[4:], "%d", &code)
		return fmt.Sprintf("(DError %d)", code)
	}
	panic("bad data kind " + s)
}

func c08Authenticator(in c08In) runtime.Authenticator {
	plain := func(u, p string) (interface{}, error) {
		if p == "good" {
			return "principal", nil
		}
		return nil, errors.New(int32(in.ErrCode), "bad credentials")
	}
	withCtx := func(ctx stdcontext.Context, u, p string) (stdcontext.Context, interface{}, error) {
		pr, err := plain(u, p)
		return ctx, pr, err
	}
	switch in.Variant {
	case "ctx":
		return security.BasicAuthRealmCtx(string(in.Realm), withCtx)
	case "default":
		return security.BasicAuth(plain)
	case "default-ctx":
		return security.BasicAuthCtx(withCtx)
	}
	return security.BasicAuthRealm(string(in.Realm), plain)
}

// c08Realm is the realm the authenticator of the case is configured with ("" = none given).
func c08Realm(in c08In) string {
	if strings.HasPrefix(in.Variant, "default") {
		return ""
	}
	return string(in.Realm)
}

// c08SetAuth puts the credentials of the case on the request.
func c08SetAuth(req *http.Request, in c08In) {
	switch in.Attempt {
	case "bad", "good":
		req.SetBasicAuth("u", in.Attempt)
	case "raw":
		req.Header["Authorization"] = []string{string(in.Authz)}
	}
}

// c08AttemptKind says what the request of the case presents to a basic authenticator. Whether an Authorization
// header yields a user and a password is net/http's decision (Request.BasicAuth, used here as the oracle):
// none = no header (or an empty one), good / bad = credentials the authentication function of the case accepts / refuses,
// malformed = a header of the Basic scheme without usable credentials, foreign = a header of another scheme.
func c08AttemptKind(in c08In) string {
	probe := &http.Request{Header: http.Header{}}
	c08SetAuth(probe, in)
	h := probe.Header.Get("Authorization")
	if h == "" {
		return "none"
	}
	if _, p, ok := probe.BasicAuth(); ok {
		if p == "good" {
			return "good"
		}
		return "bad"
	}
	scheme := h
	if i := strings.IndexAny(h, " \t"); i >= 0 {
		scheme = h[:i]
	}
	if strings.EqualFold(scheme, "Basic") {
		return "malformed"
	}
	return "foreign"
}

var c08CoqAttempt = map[string]string{"none": "NoCreds", "bad": "BadCreds", "good": "GoodCreds", "malformed": "MalformedCreds", "foreign": "ForeignScheme"}

// c08DirectAuth: a direct case in which a basic authenticator examines the request before Respond is called.
func c08DirectAuth(in c08In) bool { return len(in.Realm) > 0 || in.Attempt != "" || in.Variant != "" }

func (c08) Run(inAny any) any {
	in := inAny.(c08In)
	if in.Kind == "hist" {
		return c08RunHist(in)
	}
	var obs c08Obs
	log := &c08Log{}
	rw := &c08Writer{h: http.Header{}}
	panicked, msg := recoverTo(func() {
		doc, err := loads.Analyzed(json.RawMessage(c08Doc(in)), "")
		if err != nil {
			panic(err)
		}
		api := untyped.NewAPI(doc)
		switch in.Defaults {
		case "none":
			api.WithoutJSONDefaults()
		case "custom":
			api.WithoutJSONDefaults()
			api.DefaultProduces = string(in.Default)
		default:
			api.RegisterProducer(runtime.JSONMime, &c08Producer{runtime.JSONMime, log})
		}
		for _, mt := range in.Register {
			k := strings.ToLower(string(mt))
			api.RegisterProducer(string(mt), &c08Producer{k, log})
		}
		rBefore, rAfter := c08RCfg(in)
		for _, id := range rBefore {
			api.ServeError = c08Responder(log, id)
		}
		data, _ := c08Data(in.Data)
		api.RegisterOperation(c08OpMethod(in), "/x", runtime.OperationHandlerFunc(func(interface{}) (interface{}, error) {
			obs.Ran = true
			if e, ok := data.(error); ok {
				return nil, e
			}
			return data, nil
		}))
		if in.Auth == "basic" {
			api.RegisterAuth("basic", c08Authenticator(in))
		}
		obs.Default = Bs(api.DefaultProduces)
		// registered keys: probe through the public ProducersFor
		seen := map[string]bool{}
		probe := []string{runtime.JSONMime}
		for _, mt := range in.Register {
			probe = append(probe, strings.ToLower(string(mt)))
		}
		for k := range api.ProducersFor(probe) {
			if !seen[k] {
				seen[k] = true
				obs.Registered = append(obs.Registered, Bs(k))
			}
		}
		sort.Slice(obs.Registered, func(i, j int) bool { return obs.Registered[i] < obs.Registered[j] })

		ctx := middleware.NewContext(doc, api, nil)
		h := ctx.APIHandler(nil)
		for _, id := range rAfter { // the server is assembled, its error responder is (re)assigned afterwards
			api.ServeError = c08Responder(log, id)
		}
		if in.Kind == "routing" {
			target := "/x"
			if in.Miss == "path" {
				target = in.MissPath
			}
			req := httptest.NewRequest(in.Method, target, nil)
			if len(in.Lines) > 0 {
				req.Header["Accept"] = bsList(in.Lines)
			}
			h.ServeHTTP(rw, req)
			return
		}
		req := httptest.NewRequest(in.Method, "/x", nil)
		if len(in.Lines) > 0 {
			req.Header["Accept"] = bsList(in.Lines)
		}
		mr, _, ok := ctx.RouteInfo(req)
		if !ok {
			panic("route not found")
		}
		obs.RouteProd = toBs(mr.Produces)

		if in.Kind == "serve" {
			if in.Auth == "basic" {
				c08SetAuth(req, in)
			}
			h.ServeHTTP(rw, req)
			return
		}
		// direct
		if c08DirectAuth(in) {
			c08SetAuth(req, in)
			_, _, _ = c08Authenticator(in).Authenticate(req)
		}
		obs.Marker = Bs(security.FailedBasicAuth(req))
		if in.UseCache {
			var f string
			f, req = ctx.ResponseFormat(req, bsList(in.CacheOffers))
			if f != "" {
				b := Bs(f)
				obs.Cached = &b
			}
		}
		var route *middleware.MatchedRoute
		switch in.Route {
		case "real":
			route = mr
		case "noop":
			route = mr
			route.Operation = nil
		}
		ctx.Respond(rw, req, bsList(in.Arg), route, data)
	})
	if panicked {
		switch {
		case strings.Contains(msg, "nil pointer dereference"):
			obs.Panic = 1
		case strings.Contains(msg, "can't find a producer for"):
			obs.Panic = 2
		default:
			obs.Panic = 3
		}
		obs.PanicText = msg
	}
	obs.Status = rw.status
	if v := rw.h["Content-Type"]; len(v) > 0 {
		obs.CType = Bs(strings.Join(v, "\x00"))
	}
	obs.WWW = toBs(rw.h["Www-Authenticate"])
	obs.Calls = log.calls
	obs.Body = Bs(rw.body)
	obs.Errs = log.errs
	obs.Invoked = log.invoked
	return obs
}

// c08RCfg: the responders assigned before / after the Context is built (nothing said = responder 1 before).
func c08RCfg(in c08In) (before, after []int) {
	if len(in.RBefore) == 0 && len(in.RAfter) == 0 {
		return []int{1}, nil
	}
	return in.RBefore, in.RAfter
}

// c08Responder: recording error responder number id.
func c08Responder(log *c08Log, id int) func(http.ResponseWriter, *http.Request, error) {
	return func(w http.ResponseWriter, r *http.Request, err error) {
		log.errs = append(log.errs, c08ErrCode(err))
		log.invoked = append(log.invoked, id)
		w.WriteHeader(599)
	}
}

// ---- histories on one Context ----

var c08KeyHeader = map[string]string{"k1": "X-K1", "k2": "X-K2"}

func c08HistDoc(in c08In) string {
	paths := map[string]any{}
	usesSec := false
	for _, op := range in.Ops {
		o := map[string]any{}
		if op.ID != "" {
			o["operationId"] = op.ID
		}
		if len(op.Produces) > 0 {
			o["produces"] = bsList(op.Produces)
		}
		resp := map[string]any{}
		for _, c := range op.Codes {
			if c == 0 {
				resp["default"] = map[string]any{"description": "d"}
			} else {
				resp[fmt.Sprint(c)] = map[string]any{"description": "r"}
			}
		}
		o["responses"] = resp
		if strings.Contains(op.Path, "{id}") {
			o["parameters"] = []any{map[string]any{"name": "id", "in": "path", "type": "string", "required": true}}
		}
		if len(op.Security) > 0 {
			usesSec = true
			var alts []any
			for _, alt := range op.Security {
				m := map[string]any{}
				for _, name := range alt {
					m[name] = []string{}
				}
				alts = append(alts, m)
			}
			o["security"] = alts
		}
		item, _ := paths[op.Path].(map[string]any)
		if item == nil {
			item = map[string]any{}
			paths[op.Path] = item
		}
		item[strings.ToLower(op.Method)] = o
	}
	doc := map[string]any{"swagger": "2.0", "info": map[string]any{"title": "t", "version": "1"}, "paths": paths}
	if usesSec {
		doc["securityDefinitions"] = map[string]any{
			"basic": map[string]any{"type": "basic"},
			"k1":    map[string]any{"type": "apiKey", "in": "header", "name": c08KeyHeader["k1"]},
			"k2":    map[string]any{"type": "apiKey", "in": "header", "name": c08KeyHeader["k2"]},
		}
	}
	b, _ := json.Marshal(doc)
	return string(b)
}

// c08KeyCode: the code of the error the api-key authentication function returns for a refused token (bad<code>).
func c08KeyCode(token string) int {
	code := 401
	fmt.Sscanf(strings.TrimPrefix(token, "bad"), "%d", &code)
	return code
}

// c08Env is one API + Context + handler chain; data/ran belong to the request being answered.
type c08Env struct {
	ctx        *middleware.Context
	h          http.Handler
	log        *c08Log
	data       interface{}
	ran        bool
	def        string
	registered []Bs
	rebuild    func() // replaces ctx and h by a new Context over the same API
	install    func(id int) // assigns recording error responder number id to the API
}

func c08NewEnv(in c08In) *c08Env {
	env := &c08Env{log: &c08Log{}}
	doc, err := loads.Analyzed(json.RawMessage(c08HistDoc(in)), "")
	if err != nil {
		panic(err)
	}
	api := untyped.NewAPI(doc)
	switch in.Defaults {
	case "none":
		api.WithoutJSONDefaults()
	case "custom":
		api.WithoutJSONDefaults()
		api.DefaultProduces = string(in.Default)
	default:
		api.RegisterProducer(runtime.JSONMime, &c08Producer{runtime.JSONMime, env.log})
	}
	for _, mt := range in.Register {
		api.RegisterProducer(string(mt), &c08Producer{strings.ToLower(string(mt)), env.log})
	}
	env.install = func(id int) { api.ServeError = c08Responder(env.log, id) }
	rBefore, rAfter := c08RCfg(in)
	for _, id := range rBefore {
		env.install(id)
	}
	for _, op := range in.Ops {
		api.RegisterOperation(op.Method, op.Path, runtime.OperationHandlerFunc(func(interface{}) (interface{}, error) {
			env.ran = true
			if e, ok := env.data.(error); ok {
				return nil, e
			}
			return env.data, nil
		}))
	}
	api.RegisterAuth("basic", c08Authenticator(in))
	for name, hdr := range c08KeyHeader {
		api.RegisterAuth(name, security.APIKeyAuth(hdr, "header", func(token string) (interface{}, error) {
			if token == "good" {
				return "key-principal", nil
			}
			return nil, errors.New(int32(c08KeyCode(token)), "bad key")
		}))
	}
	env.def = api.DefaultProduces
	seen := map[string]bool{}
	probe := []string{runtime.JSONMime}
	for _, mt := range in.Register {
		probe = append(probe, strings.ToLower(string(mt)))
	}
	for k := range api.ProducersFor(probe) {
		if !seen[k] {
			seen[k] = true
			env.registered = append(env.registered, Bs(k))
		}
	}
	sort.Slice(env.registered, func(i, j int) bool { return env.registered[i] < env.registered[j] })
	env.rebuild = func() {
		env.ctx = middleware.NewContext(doc, api, nil)
		env.h = env.ctx.APIHandler(nil)
	}
	env.rebuild()
	for _, id := range rAfter {
		env.install(id)
	}
	return env
}

func c08StepRequest(in c08In, st c08Step) *http.Request {
	op := in.Ops[st.Op]
	req := httptest.NewRequest(op.Method, strings.ReplaceAll(op.Path, "{id}", "7"), nil)
	if len(st.Lines) > 0 {
		req.Header["Accept"] = bsList(st.Lines)
	}
	c08SetAuth(req, c08In{Attempt: st.Attempt, Authz: st.Authz})
	for name, token := range st.Keys {
		if token != "" {
			req.Header.Set(c08KeyHeader[name], token)
		}
	}
	return req
}

// c08Answer sends the request of one step through the handler chain of env.
func c08Answer(env *c08Env, in c08In, st c08Step) c08Obs {
	var obs c08Obs
	rw := &c08Writer{h: http.Header{}}
	env.log.calls, env.log.errs, env.log.invoked = nil, nil, nil
	env.data, _ = c08Data(st.Data)
	for _, id := range st.RInstall {
		env.install(id)
	}
	env.ran = false
	panicked, msg := recoverTo(func() {
		mr, _, ok := env.ctx.RouteInfo(c08StepRequest(in, st))
		if !ok {
			panic("route not found")
		}
		obs.RouteProd = toBs(mr.Produces)
		for _, ra := range mr.Authenticators {
			alt := append([]string{}, ra.Schemes...)
			if len(alt) == 1 && alt[0] == "" {
				alt = []string{}
			}
			obs.Alts = append(obs.Alts, alt)
		}
		env.h.ServeHTTP(rw, c08StepRequest(in, st))
	})
	if panicked {
		switch {
		case strings.Contains(msg, "nil pointer dereference"):
			obs.Panic = 1
		case strings.Contains(msg, "can't find a producer for"):
			obs.Panic = 2
		default:
			obs.Panic = 3
		}
		obs.PanicText = msg
	}
	obs.Status = rw.status
	if v := rw.h["Content-Type"]; len(v) > 0 {
		obs.CType = Bs(strings.Join(v, "\x00"))
	}
	obs.WWW = toBs(rw.h["Www-Authenticate"])
	obs.Calls = env.log.calls
	obs.Body = Bs(rw.body)
	obs.Errs = env.log.errs
	obs.Invoked = env.log.invoked
	obs.Ran = env.ran
	return obs
}

func c08SameAlts(a, b [][]string) bool {
	if len(a) != len(b) {
		return false
	}
	for i := range a {
		if strings.Join(a[i], ",") != strings.Join(b[i], ",") {
			return false
		}
	}
	return true
}

func c08RunHist(in c08In) any {
	var obs c08Obs
	panicked, msg := recoverTo(func() {
		env := c08NewEnv(in)
		obs.Default = Bs(env.def)
		obs.Registered = env.registered
		for _, st := range in.Steps {
			obs.Steps = append(obs.Steps, c08StepObs{Hist: c08Answer(env, in, st)})
		}
		// the same requests, each answered by a Context that has answered nothing before
		for i, st := range in.Steps {
			so := &obs.Steps[i]
			if i == 0 {
				// the first request of a history IS answered by a Context that has answered nothing before
				so.Fresh, so.Comparable = so.Hist, false
				continue
			}
			fresh := c08NewEnv(in)
			for _, prev := range in.Steps[:i] {
				for _, id := range prev.RInstall {
					fresh.install(id)
				}
			}
			so.Fresh = c08Answer(fresh, in, st)
			so.Comparable = c08SameAlts(so.Hist.Alts, so.Fresh.Alts)
			for try := 0; !so.Comparable && try < 8; try++ {
				fresh.rebuild() // the order in which the schemes of an alternative are consulted is drawn per router
				so.Fresh = c08Answer(fresh, in, st)
				so.Comparable = c08SameAlts(so.Hist.Alts, so.Fresh.Alts)
			}
		}
	})
	if panicked {
		obs.Panic = 3
		obs.PanicText = msg
	}
	return obs
}

// ---- Gallina ----

func c08CoqObs(o c08Obs) string {
	calls := coqList(o.Calls, func(c c08Call) string { return coqPair(coqBytes(string(c.Key)), coqBytes(string(c.Tag))) })
	errs := coqList(o.Errs, func(e int) string { return coqNatBig(e) })
	return fmt.Sprintf("(mkobs %d %s %s %s %s %s %s)", o.Panic, coqBytes(string(o.CType)), coqNatBig(o.Status),
		coqBytesList(bsList(o.WWW)), calls, coqBytes(string(o.Body)), errs)
}

func c08Codes(codes []int) string {
	var cs []int
	for _, c := range codes {
		if c != 0 {
			cs = append(cs, c)
		}
	}
	return coqList(cs, func(c int) string { return coqNatBig(c) })
}

// c08CoqSec renders the security requirement of a step as the route consults it, with what the request presents to each scheme.
func c08CoqSec(in c08In, st c08Step, alts [][]string) string {
	as := coqList(alts, func(alt []string) string {
		return coqList(alt, func(name string) string {
			if name == "basic" {
				return "SBasic"
			}
			switch token := st.Keys[name]; {
			case token == "":
				return "(SKey KeyAbsent)"
			case token == "good":
				return "(SKey KeyGood)"
			default:
				return fmt.Sprintf("(SKey (KeyBad %s))", coqNatBig(c08KeyCode(token)))
			}
		})
	})
	return fmt.Sprintf("(mksec %s %s %s %s)", coqBytes(c08Realm(in)), c08CoqAttempt[c08AttemptKind(c08In{Attempt: st.Attempt, Authz: st.Authz})],
		coqNatBig(in.ErrCode), as)
}

func c08CoqHist(in c08In, obs c08Obs) string {
	if obs.Panic != 0 || len(obs.Steps) != len(in.Steps) {
		// the set-up itself failed: an empty history never corresponds
		return fmt.Sprintf("CHist %s %s []", coqBytes(string(obs.Default)), coqBytesList(bsList(obs.Registered)))
	}
	idx := make([]int, len(in.Steps))
	for i := range idx {
		idx[i] = i
	}
	steps := coqList(idx, func(i int) string {
		st, so := in.Steps[i], obs.Steps[i]
		op := in.Ops[st.Op]
		_, tag := c08Data(st.Data)
		_, after := c08RCfg(in)
		after = append([]int{}, after...)
		for _, prev := range in.Steps[:i+1] {
			after = append(after, prev.RInstall...)
		}
		return fmt.Sprintf("(HStep %s %s %s %s %s %s %s %s %s %s %s %s %s %s %s)",
			coqBytesList(bsList(op.Produces)), coqBytesList(bsList(so.Hist.RouteProd)), c08Codes(op.Codes), coqBytesList(bsList(st.Lines)),
			coqBool(op.Method == "HEAD"), c08CoqSec(in, st, so.Hist.Alts), c08CoqData(st.Data), coqBytes(tag),
			coqBool(so.Hist.Ran), c08CoqObs(so.Hist), coqBool(so.Comparable), coqBool(so.Fresh.Ran), c08CoqObs(so.Fresh),
			c08CoqRCfg(in, after), c08Ints(so.Hist.Invoked))
	})
	return fmt.Sprintf("CHist %s %s %s", coqBytes(string(obs.Default)), coqBytesList(bsList(obs.Registered)), steps)
}

func (c08) Coq(inAny any, obsAny any) string {
	in, obs := inAny.(c08In), obsAny.(c08Obs)
	if in.Kind == "hist" {
		return c08CoqHist(in, obs)
	}
	_, tag := c08Data(in.Data)
	head := coqBool(in.Method == "HEAD")
	if in.Kind == "serve" {
		auth := "NoAuth"
		if in.Auth == "basic" {
			auth = fmt.Sprintf("(Basic %s %s %s)", coqBytes(c08Realm(in)), c08CoqAttempt[c08AttemptKind(in)], coqNatBig(in.ErrCode))
		}
		return fmt.Sprintf("CServe %s %s %s %s %s %s %s %s %s %s %s %s %s %s",
			coqBytes(string(obs.Default)), coqBytesList(bsList(obs.Registered)), coqBytesList(bsList(in.Produces)), coqBytesList(bsList(obs.RouteProd)),
			c08Codes(in.Codes), coqBytesList(bsList(in.Lines)), head, auth, c08CoqData(in.Data), coqBytes(tag),
			coqBool(obs.Ran), c08CoqObs(obs), c08CoqRCfg(in, nil), c08Ints(obs.Invoked))
	}
	if in.Kind == "routing" { // Respond(everything the description produces, no route, the routing error)
		in.Arg, in.Route = c08AllProduces(in), "nil"
	}
	route := "None"
	switch in.Route {
	case "real":
		route = fmt.Sprintf("(Some (mkroute %s true %s))", coqBytesList(bsList(obs.RouteProd)), c08Codes(in.Codes))
	case "noop":
		route = fmt.Sprintf("(Some (mkroute %s false %s))", coqBytesList(bsList(obs.RouteProd)), c08Codes(in.Codes))
	}
	cached := "None"
	if obs.Cached != nil {
		cached = "(Some " + coqBytes(string(*obs.Cached)) + ")"
	}
	dauth := "None"
	if c08DirectAuth(in) {
		dauth = fmt.Sprintf("(Some (%s, %s))", coqBytes(c08Realm(in)), c08CoqAttempt[c08AttemptKind(in)])
	}
	return fmt.Sprintf("CDirect %s %s %s %s %s %s %s %s %s %s %s %s %s %s",
		coqBytes(string(obs.Default)), coqBytesList(bsList(obs.Registered)), coqBytesList(bsList(in.Arg)), route, cached,
		coqBytesList(bsList(in.Lines)), head, coqBytes(string(obs.Marker)), dauth, c08CoqData(in.Data), coqBytes(tag), c08CoqObs(obs),
		c08CoqRCfg(in, nil), c08Ints(obs.Invoked))
}

func c08Ints(l []int) string { return coqList(l, func(i int) string { return coqNat(i) }) }

// c08CoqRCfg: the responders assigned before the Context was built and after it (after = nil: those of the input)
func c08CoqRCfg(in c08In, after []int) string {
	b, a := c08RCfg(in)
	if after != nil {
		a = after
	}
	return fmt.Sprintf("(mkrcfg %s %s)", c08Ints(b), c08Ints(a))
}

func (c08) Classify(inAny any, obsAny any) []string { return nil }

// c08HistCategory: number of requests, how many of the operations addressed have no operationId, whether two requests
// address the same path under different methods, the widest security requirement (alternatives x schemes) and where the
// basic scheme stands in it, and the kinds of answers.
func c08HistCategory(in c08In, obs c08Obs) (string, bool) {
	idless, maxAlts, maxSchemes := 0, 0, 0
	used := map[int]bool{}
	paths := map[string]map[string]bool{}
	codes := map[int]bool{}
	basicPos := "nobasic"
	for _, st := range in.Steps {
		op := in.Ops[st.Op]
		if !used[st.Op] {
			used[st.Op] = true
			if op.ID == "" {
				idless++
			}
		}
		if paths[op.Path] == nil {
			paths[op.Path] = map[string]bool{}
		}
		paths[op.Path][op.Method] = true
		min := 0
		for _, c := range op.Codes {
			if c >= 200 && c < 300 && (min == 0 || c < min) {
				min = c
			}
		}
		codes[min] = true
		if len(op.Security) > maxAlts {
			maxAlts = len(op.Security)
		}
		for ai, alt := range op.Security {
			if len(alt) > maxSchemes {
				maxSchemes = len(alt)
			}
			for _, name := range alt {
				if name != "basic" {
					continue
				}
				pos := "basic-only"
				switch {
				case len(op.Security) == 1 && len(alt) == 1:
				case len(alt) > 1:
					pos = "basic-among-schemes"
				case ai == 0:
					pos = "basic-first"
				case ai == len(op.Security)-1:
					pos = "basic-last"
				default:
					pos = "basic-middle"
				}
				if basicPos == "nobasic" || basicPos == "basic-only" || pos == "basic-among-schemes" {
					basicPos = pos
				}
			}
		}
	}
	samePath := ""
	for _, ms := range paths {
		if len(ms) > 1 {
			samePath = "/same-path"
		}
	}
	outcomes := map[string]bool{}
	for _, so := range obs.Steps {
		switch {
		case so.Hist.Panic != 0:
			outcomes["panic"] = true
		case len(so.Hist.Errs) > 0:
			o := fmt.Sprintf("error-%d", so.Hist.Errs[0])
			if len(so.Hist.WWW) > 0 {
				o += "+challenge"
			}
			outcomes[o] = true
		case len(so.Hist.Calls) > 0:
			outcomes["body"] = true
		default:
			outcomes["no-body"] = true
		}
	}
	var os []string
	for o := range outcomes {
		os = append(os, o)
	}
	sort.Strings(os)
	cat := fmt.Sprintf("hist/steps%d/idless%d%s/codes%d/sec%dx%d/%s/%s", len(in.Steps), idless, samePath, len(codes), maxAlts, maxSchemes, basicPos, strings.Join(os, "+"))
	swaps := 0
	for _, st := range in.Steps {
		swaps += len(st.RInstall)
	}
	if swaps > 0 || len(in.RAfter) > 0 {
		cat += fmt.Sprintf("/responder-a%d-swaps%d", len(in.RAfter), swaps)
	}
	emptyAcc, otherAcc := false, false
	for _, st := range in.Steps {
		if c08NoRange(st.Lines) {
			emptyAcc = true
		} else {
			otherAcc = true
		}
	}
	if emptyAcc && otherAcc {
		cat += "/empty-accept-among-others"
	} else if emptyAcc {
		cat += "/empty-accept"
	}
	return cat, len(in.Steps) >= 2 || maxAlts >= 2 || maxSchemes >= 2
}

func (c08) Category(inAny any, obsAny any) (string, bool) {
	in, obs := inAny.(c08In), obsAny.(c08Obs)
	if in.Kind == "hist" {
		return c08HistCategory(in, obs)
	}
	code := "default-only"
	min := 0
	for _, c := range in.Codes {
		if c >= 200 && c < 300 && (min == 0 || c < min) {
			min = c
		}
	}
	if min != 0 {
		code = fmt.Sprint(min)
	}
	if len(in.Codes) == 0 {
		code = "none"
	}
	data := in.Data
	if i := strings.Index(data, ":"); i >= 0 {
		data = data[:i]
	}
	params := ""
	for _, p := range append(append([]Bs{}, in.Produces...), in.Arg...) {
		if strings.Contains(string(p), ";") {
			params = "+params"
			break
		}
	}
	acc := "no-accept"
	if len(in.Lines) > 0 {
		acc = "accept"
		if c08NoRange(in.Lines) {
			acc = "empty-accept"
		}
	}
	outcome := "answered"
	switch {
	case obs.Panic != 0:
		outcome = "panic"
	case len(obs.Errs) > 0:
		outcome = fmt.Sprintf("error-%d", obs.Errs[0])
	case len(obs.Calls) > 0:
		outcome = "body"
	default:
		outcome = "no-body"
	}
	extra := ""
	if in.Kind == "direct" {
		extra = "/route-" + in.Route
		if obs.Cached != nil {
			extra += "+cached"
		}
		if obs.Marker != "" {
			extra += "+marker"
		}
		if c08DirectAuth(in) {
			extra += "/basic-" + c08AttemptKind(in) + c08VariantLabel(in)
		}
	} else if in.Auth == "basic" {
		extra = "/basic-" + c08AttemptKind(in) + c08VariantLabel(in)
	}
	if in.Kind == "routing" {
		extra = "/no-" + in.Miss
		named := "/accept-names-nothing-produced"
		for _, p := range c08AllProduces(in) {
			base := strings.SplitN(string(p), ";", 2)[0]
			for _, l := range in.Lines {
				if strings.Contains(strings.ToLower(string(l)), strings.ToLower(base)) {
					if string(p) == c08DefaultOf(in) {
						if named == "/accept-names-nothing-produced" {
							named = "/accept-names-default"
						}
					} else {
						named = "/accept-names-produced-non-default"
					}
				}
			}
		}
		extra += named
	}
	if len(in.RAfter) > 0 {
		extra += fmt.Sprintf("/responder-b%d-a%d", len(in.RBefore), len(in.RAfter))
	} else if len(in.RBefore) > 1 {
		extra += fmt.Sprintf("/responder-b%d", len(in.RBefore))
	}
	cat := fmt.Sprintf("%s/%s/%s/%s%s/%s/%s/def-%s%s", in.Kind, in.Method, code, data, params, acc, outcome, in.Defaults, extra)
	nontrivial := len(obs.Calls) > 0 || len(obs.Errs) > 0 || len(obs.RouteProd) >= 2 || len(in.Arg) >= 2
	return cat, nontrivial
}

func c08VariantLabel(in c08In) string {
	if in.Variant == "" {
		return ""
	}
	return "-" + in.Variant
}

// ---- generation ----

var c08Methods = []string{"HEAD", "GET", "POST"}
var c08CodeSets = [][]int{{200}, {201}, {204}, {0}, {200, 201, 204}, {404, 201, 0}, {}, {204, 200}, {299, 300}, {500, 0}}
var c08DataKinds = []string{"value", "nil", "resp:0", "resp:404", "notimpl", "custom", "err:404", "err:plain", "err:composite:409"}
var c08ProduceSets = [][]string{
	{},
	{"text/plain; charset=utf-8"},
	{"application/json", "text/plain"},
	{"text/csv", "application/xml;v=2", "text/plain"},
}
var c08Media = []string{"text/plain", "application/json", "application/xml", "text/csv", "text/html", "image/png", "application/vnd.api+json"}
var c08Params = []string{"; charset=utf-8", ";v=2", "; q=0.5", ";charset=UTF-8;x=1"}
var c08Realms = []string{"", "API", "my realm", `a"b`, `back\slash`, `"`, `\"`, "x"}

var c08Variants = []string{"", "ctx", "default", "default-ctx"}

func c08B64(s string) string { return base64.StdEncoding.EncodeToString([]byte(s)) }

// Authorization header values, as a client may send them (no surrounding blanks). What each yields is decided by
// net/http (c08AttemptKind), not by this table.
var c08AuthzFixed = []string{
	// the Basic scheme without usable credentials
	"Basic",
	"Basic !!!",
	"Basic " + c08B64("u"),
	"Basic " + c08B64("admin-without-colon"),
	"Basic " + c08B64("u:good") + "=",
	"Basic " + strings.TrimRight(c08B64("u:goo"), "="),
	"Basic  " + c08B64("u:good"),
	"Basic " + c08B64("u:good") + " trailing",
	"Basic " + base64.URLEncoding.EncodeToString([]byte("u:good??>>")),
	"basic " + c08B64("nocolon"),
	"BASIC",
	// other schemes
	"Bearer x",
	"Bearer " + c08B64("u:good"),
	"Bearer",
	`Digest username="u", realm="API", nonce="abc", response="def"`,
	"Negotiate YIIB",
	"Token token=abc",
	"BasicX " + c08B64("u:good"),
	c08B64("u:good"),
	"Basic\u00a0" + c08B64("u:good"),
	// usable credentials in unusual dress (accepted or refused by the authentication function)
	"basic " + c08B64("u:good"),
	"BASIC " + c08B64("u:bad"),
	"Basic " + c08B64(":good"),
	"Basic " + c08B64("u:"),
	"Basic " + c08B64("u:good:more"),
	// header present, no value
	"",
}

// c08RandAuthz draws an Authorization value: a random colon-free (or not) text under the Basic scheme, broken base64,
// a random other scheme with a token, or one of the fixed values.
func c08RandAuthz(r *rand.Rand) string {
	word := func(alpha string, n int) string {
		b := make([]byte, n)
		for i := range b {
			b[i] = alpha[r.Intn(len(alpha))]
		}
		return string(b)
	}
	const text = "abcdefghijklmnopqrstuvwxyzABCXYZ0123456789 ._-@/+"
	const tok = "abcdefghijklmnopqrstuvwxyzABCDEFGHIJKLMNOPQRSTUVWXYZ0123456789-._~+/"
	scheme := []string{"Basic", "Basic", "basic", "BASIC", "bAsIc"}[r.Intn(5)]
	switch r.Intn(8) {
	case 0, 1: // text without a colon
		return scheme + " " + c08B64(word(text, 1+r.Intn(12)))
	case 2: // not base64
		return scheme + " " + word("!#$%&*()[]{}<>?^|", 1+r.Intn(6))
	case 3: // base64 cut short or with a stray character
		b := c08B64("u:" + word(text, 1+r.Intn(8)))
		if r.Intn(2) == 0 && len(b) > 3 {
			return scheme + " " + b[:len(b)-1-r.Intn(2)] // wrong length or padding
		}
		i := r.Intn(len(b))
		return scheme + " " + b[:i] + "*" + b[i:]
	case 4, 5: // another scheme
		other := []string{"Bearer", "Digest", "Negotiate", "NTLM", "Token", "AWS4-HMAC-SHA256", "Basicauth", "Basi", "bearer", "X-" + word("abcxyz", 3)}[r.Intn(10)]
		if r.Intn(6) == 0 {
			return other
		}
		if r.Intn(3) == 0 {
			return other + " " + c08B64("u:good")
		}
		return other + " " + word(tok, 1+r.Intn(20))
	case 6: // credentials the authentication function is asked about
		return scheme + " " + c08B64(word("uU:", r.Intn(3))+":"+[]string{"good", "bad", "", "good ", "Good"}[r.Intn(5)])
	}
	return c08AuthzFixed[r.Intn(len(c08AuthzFixed))]
}

// c08Attempt draws the credentials of a basic-auth case.
func c08Attempt(r *rand.Rand, in *c08In) {
	switch r.Intn(8) {
	case 0:
		in.Attempt = "none"
	case 1:
		in.Attempt = "bad"
	case 2, 3:
		in.Attempt = "good"
	default:
		in.Attempt = "raw"
		in.Authz = Bs(c08RandAuthz(r))
	}
	in.Variant = c08Variants[r.Intn(len(c08Variants))]
	if r.Intn(2) == 0 {
		in.Variant = ""
	}
}

// ---- generation of histories ----

var c08HistSlots = [][2]string{{"GET", "/x"}, {"POST", "/x"}, {"PUT", "/x"}, {"DELETE", "/x"}, {"HEAD", "/x"}, {"GET", "/y"}, {"POST", "/y"},
	{"GET", "/x/{id}"}, {"DELETE", "/x/{id}"}, {"PUT", "/x/{id}"}}

// security requirements: the basic scheme alone, before / between / after other alternatives, together with other schemes
// in one alternative, next to the anonymous alternative, and requirements without it
var c08SecShapes = [][][]string{
	{{"basic"}},
	{{"basic"}, {"k1"}},
	{{"k1"}, {"basic"}},
	{{"k1"}, {"basic"}, {"k2"}},
	{{"basic"}, {"k1"}, {"k2"}},
	{{"k1"}, {"k2"}, {"basic"}},
	{{"basic", "k1"}},
	{{"basic", "k1"}, {"k2"}},
	{{"k2"}, {"basic", "k1"}},
	{{"k1", "k2"}, {"basic"}},
	{{"basic", "k1", "k2"}},
	{{"basic"}, {"basic", "k1"}},
	{{"basic"}, {}},
	{{}, {"basic"}},
	{{"k1"}},
	{{"k1", "k2"}},
	{{"k1"}, {}},
}

var c08KeyTokens = []string{"", "good", "bad401", "bad403"}

func c08HistRegister(in *c08In) {
	seen := map[string]bool{}
	for _, op := range in.Ops {
		for _, p := range op.Produces {
			base := strings.SplitN(string(p), ";", 2)[0]
			if !seen[base] {
				seen[base] = true
				in.Register = append(in.Register, Bs(base))
			}
		}
	}
}

// c08HistStatus: operations that differ in their declared success status (and in what they produce), requests in the given order.
func c08HistStatus(ids []string, order []int, data string) c08In {
	in := c08In{Kind: "hist", Defaults: "json", ErrCode: 401}
	specs := []c08Op{
		{Method: "GET", Path: "/x", Codes: []int{200}, Produces: toBs([]string{"application/json", "text/plain"})},
		{Method: "POST", Path: "/x", Codes: []int{201, 0}, Produces: toBs([]string{"text/plain; charset=utf-8"})},
		{Method: "DELETE", Path: "/x/{id}", Codes: []int{204}},
		{Method: "PUT", Path: "/x/{id}", Codes: []int{0}, Produces: toBs([]string{"text/csv", "application/xml;v=2"})},
	}
	for i := range specs {
		specs[i].ID = ids[i]
	}
	in.Ops = specs
	c08HistRegister(&in)
	for _, o := range order {
		in.Steps = append(in.Steps, c08Step{Op: o, Data: data})
	}
	return in
}

func c08EnumerateHist() []any {
	var out []any
	// different success codes: every order of two and three of four operations, with none / some / all operationIds
	idSets := [][]string{{"", "", "", ""}, {"getX", "", "", "putX"}, {"a", "b", "c", "d"}, {"", "op", "", ""}}
	orders := [][]int{{0, 1}, {1, 0}, {0, 2}, {2, 0}, {1, 2}, {2, 1}, {0, 3}, {3, 0}, {2, 3}, {3, 2}, {0, 0, 1}, {2, 2, 0},
		{0, 1, 2}, {0, 2, 1}, {1, 0, 2}, {1, 2, 0}, {2, 0, 1}, {2, 1, 0}, {0, 1, 2, 0}, {2, 3, 1, 0, 2}}
	for _, ids := range idSets {
		for k, order := range orders {
			out = append(out, c08HistStatus(ids, order, []string{"value", "value", "nil", "resp:0"}[k%4]))
		}
	}
	// one operation asked again with another kind of Accept header: absent / present without a media range / naming the
	// last produced type / naming nothing produced, every ordered pair and some triples, x the ways a header can be empty
	{
		orders := [][]int{{0, 1}, {1, 0}, {1, 2}, {2, 1}, {1, 3}, {3, 1}, {1, 1}, {0, 1, 2}, {2, 0, 1}, {1, 2, 0}, {3, 1, 0}, {1, 0, 1}}
		k := 0
		for _, order := range orders {
			for pi, ps := range c08ProduceSets[1:] {
				k++
				in := c08In{Kind: "hist", Defaults: "json"}
				in.Ops = []c08Op{{Method: c08Methods[k%3], Path: "/x", ID: []string{"", "op"}[k%2], Codes: [][]int{{200}, {201}, {200, 0}}[pi], Produces: toBs(ps)},
					{Method: "DELETE", Path: "/x", Codes: []int{204}, Produces: toBs(ps)}}
				c08HistRegister(&in)
				for j, o := range order {
					st := c08Step{Op: 0, Data: []string{"value", "value", "err:404"}[(k+j)%3]}
					switch o {
					case 1:
						st.Lines = append([]Bs{}, c08EmptyAccepts[(k+j)%len(c08EmptyAccepts)]...)
					case 2:
						st.Lines = []Bs{Bs(strings.SplitN(ps[len(ps)-1], ";", 2)[0] + ";q=0.5, */*;q=0.1")}
					case 3:
						st.Lines = []Bs{"image/png"}
					}
					in.Steps = append(in.Steps, st)
				}
				out = append(out, in)
			}
		}
	}
	// security requirements: every shape x what the request presents to the basic scheme x to the first api-key scheme
	// x the handler's outcome, one request each (the single-call cases of requirements with several alternatives)
	n := 0
	basics := []c08Step{{Attempt: "none"}, {Attempt: "bad"}, {Attempt: "good"}, {Attempt: "raw", Authz: "Basic !!!"}, {Attempt: "raw", Authz: "Bearer x"}}
	for _, shape := range c08SecShapes {
		for _, b := range basics {
			for _, k1 := range c08KeyTokens[:3] {
				{
					n++
					data := []string{"value", "err:404"}[(n/3)%2]
					in := c08In{Kind: "hist", Defaults: "json", Realm: Bs([]string{"", "my realm", `a"b`}[n%3]), Variant: c08Variants[n%4], ErrCode: []int{401, 403}[n%2]}
					ps := c08ProduceSets[1+n%3]
					in.Ops = []c08Op{{Method: c08Methods[n%3], Path: "/x", ID: []string{"", "op"}[n%2], Codes: []int{200}, Produces: toBs(ps), Security: shape}}
					c08HistRegister(&in)
					st := c08Step{Op: 0, Attempt: b.Attempt, Authz: b.Authz, Data: data, Keys: map[string]string{"k1": k1, "k2": []string{"", "bad403", "good", ""}[n%4]}}
					if n%5 == 0 {
						st.Lines = []Bs{"text/plain;q=0.9, */*;q=0.1"}
					}
					if n%5 == 2 {
						st.Lines = append([]Bs{}, c08EmptyAccepts[(n/5)%len(c08EmptyAccepts)]...)
					}
					in.Steps = []c08Step{st}
					out = append(out, in)
				}
			}
		}
	}
	return out
}

// c08GenHist: one description with 2-4 operations (several of them on one path, most without operationId, different
// declared codes, produces lists and security requirements) and 2-5 requests; neighbouring requests tend to address
// operations that share the path or the (absent) operationId, and the same operation is asked again with other credentials.
func c08GenHist(r *rand.Rand) c08In {
	in := c08In{Kind: "hist", Defaults: "json", ErrCode: []int{401, 403, 401}[r.Intn(3)]}
	switch r.Intn(12) {
	case 0:
		in.Defaults = "none"
	case 1:
		in.Defaults = "custom"
		in.Default = Bs([]string{"text/plain", "application/xml", "text/csv"}[r.Intn(3)])
	}
	in.Realm = Bs(c08Realms[r.Intn(len(c08Realms))])
	if r.Intn(2) == 0 {
		in.Variant = c08Variants[r.Intn(len(c08Variants))]
	}
	nops := 2 + r.Intn(3)
	slots := r.Perm(len(c08HistSlots))
	if r.Intn(2) == 0 { // all on one path
		slots = r.Perm(5)
	}
	idMode := r.Intn(4)  // 0,1: none has an id; 2: some; 3: all
	secMode := r.Intn(3) // 0: no security anywhere; 1: some operations; 2: all
	for i := 0; i < nops; i++ {
		sl := c08HistSlots[slots[i]]
		op := c08Op{Method: sl[0], Path: sl[1], Codes: c08CodeSets[r.Intn(len(c08CodeSets))], Produces: c08Produces(r)}
		if r.Intn(3) == 0 {
			op.Codes = [][]int{{200}, {201}, {204}, {202, 0}}[r.Intn(4)]
		}
		if idMode == 3 || (idMode == 2 && r.Intn(2) == 0) {
			op.ID = fmt.Sprintf("op%d", i)
		}
		if secMode == 2 || (secMode == 1 && r.Intn(2) == 0) {
			op.Security = c08SecShapes[r.Intn(len(c08SecShapes))]
		}
		in.Ops = append(in.Ops, op)
	}
	var all []Bs
	for _, op := range in.Ops {
		all = append(all, op.Produces...)
	}
	in.Register = c08Register(r, all)
	if in.Defaults == "custom" && r.Intn(4) != 0 {
		in.Register = append(in.Register, in.Default)
	}
	nsteps := 2 + r.Intn(4)
	for i := 0; i < nsteps; i++ {
		st := c08Step{Op: r.Intn(nops), Data: "value"}
		if r.Intn(3) == 0 {
			st.Data = c08DataKinds[r.Intn(len(c08DataKinds))]
		}
		st.Lines = c08Accept(r, in.Ops[st.Op].Produces)
		if r.Intn(3) != 0 {
			st.Lines = nil
		}
		if i > 0 && r.Intn(3) == 0 {
			// the same operation as the request before, another kind of Accept header: absent / present without a media range / with ranges
			prev := in.Steps[i-1]
			st.Op = prev.Op
			switch {
			case len(prev.Lines) == 0:
				st.Lines = c08EmptyAccept(r)
			case c08NoRange(prev.Lines) && r.Intn(2) == 0:
				st.Lines = nil
			case c08NoRange(prev.Lines):
				st.Lines = []Bs{"image/png;q=0.2, */*;q=0.1"}
			default:
				st.Lines = c08EmptyAccept(r)
			}
		}
		if len(in.Ops[st.Op].Security) > 0 || r.Intn(4) == 0 {
			var a c08In
			c08Attempt(r, &a)
			st.Attempt, st.Authz = a.Attempt, a.Authz
			st.Keys = map[string]string{"k1": c08KeyTokens[r.Intn(len(c08KeyTokens))], "k2": c08KeyTokens[r.Intn(len(c08KeyTokens))]}
		}
		in.Steps = append(in.Steps, st)
	}
	return in
}

// c08EnumerateOrders: every order of configuration x the stages an error can come from (the handler: coded, plain, composite;
// security: refused basic credentials; negotiation: 406; default-only operation: 500), through the handler chain and through a
// direct Respond; and histories in which the shared API is given a new responder between two requests.
func c08EnumerateOrders() []any {
	var out []any
	n := 0
	for _, o := range c08RespOrders[1:] {
		for _, what := range []string{"err:404", "err:plain", "err:composite:422", "value", "basic-bad", "406", "default-only"} {
			for _, kind := range []string{"serve", "direct"} {
				n++
				in := c08In{Kind: kind, Defaults: "json", Method: c08Methods[n%3], Codes: []int{200}, Data: "value",
					Produces: toBs([]string{"application/json", "text/plain"}), Register: toBs([]string{"text/plain"}), RBefore: o[0], RAfter: o[1]}
				switch what {
				case "basic-bad":
					if kind == "direct" {
						continue
					}
					in.Auth, in.Attempt, in.ErrCode, in.Realm = "basic", "bad", 401, "r"
				case "406":
					if kind == "direct" {
						continue
					}
					in.Lines = []Bs{"image/png"}
				case "default-only":
					in.Codes = []int{0}
				default:
					in.Data = what
				}
				if kind == "direct" {
					in.Route = []string{"real", "nil", "noop"}[n%3]
					in.Arg = in.Produces
				}
				out = append(out, in)
			}
		}
	}
	// histories: the responder changes between two requests to one Context
	for k, order := range [][]int{{0, 1}, {1, 0, 1}, {0, 0}, {3, 0, 3}, {0, 3, 1, 3}} {
		for _, data := range []string{"err:404", "err:plain", "value"} {
			for _, o := range [][2][]int{{{1}, nil}, {nil, {1}}, {{1}, {2}}} {
				in := c08HistStatus([]string{"", "", "", ""}, order, data)
				in.RBefore, in.RAfter = o[0], o[1]
				for i := range in.Steps {
					if i > 0 && (i+k)%2 == 1 {
						in.Steps[i].RInstall = []int{4 + i}
					}
				}
				out = append(out, in)
			}
		}
	}
	return out
}

func (c08) Enumerate(tier string) []any {
	var out []any
	out = append(out, c08EnumerateHist()...)
	out = append(out, c08EnumerateOrders()...)
	out = append(out, c08EnumerateRouting()...)
	// failed and accepted basic-auth attempts: authenticator variants x realms x credentials, through the handler and
	// through a direct Respond of an error after the authenticator examined the request
	n := 0
	for _, variant := range c08Variants {
		realms := []string{"", "my realm", `a"b`, `back\slash`}
		if strings.HasPrefix(variant, "default") {
			realms = []string{""}
		}
		for _, realm := range realms {
			atts := []c08In{{Attempt: "none"}, {Attempt: "bad"}, {Attempt: "good"}}
			for _, a := range c08AuthzFixed {
				atts = append(atts, c08In{Attempt: "raw", Authz: Bs(a)})
			}
			for _, a := range atts {
				for _, kind := range []string{"serve", "direct"} {
					n++
					ps := c08ProduceSets[1+n%3]
					in := c08In{Kind: kind, Defaults: "json", Method: c08Methods[n%3], Codes: []int{200}, Data: "value", Produces: toBs(ps),
						Realm: Bs(realm), Variant: variant, Attempt: a.Attempt, Authz: a.Authz, ErrCode: []int{401, 403}[n%2]}
					for _, p := range ps {
						in.Register = append(in.Register, Bs(strings.SplitN(p, ";", 2)[0]))
					}
					if n%4 == 0 {
						in.Lines = []Bs{"text/plain;q=0.9, */*;q=0.1"}
					}
					if n%8 == 3 || n%8 == 6 {
						in.Lines = append([]Bs{}, c08EmptyAccepts[(n/8)%len(c08EmptyAccepts)]...)
					}
					if kind == "serve" {
						in.Auth = "basic"
					} else {
						in.Route = "real"
						in.Arg = toBs(ps)
						in.Data = []string{"err:401", "err:401", "err:403", "value"}[n%4]
					}
					out = append(out, in)
				}
			}
		}
	}
	for _, m := range c08Methods {
		for _, cs := range c08CodeSets[:7] {
			for _, d := range c08DataKinds {
				for _, ps := range c08ProduceSets {
					for acc := 0; acc < 2; acc++ {
						in := c08In{Kind: "serve", Defaults: "json", Method: m, Codes: cs, Data: d, Produces: toBs(ps)}
						for _, p := range ps {
							in.Register = append(in.Register, Bs(strings.SplitN(p, ";", 2)[0]))
						}
						if acc == 1 {
							if len(ps) > 0 {
								in.Lines = []Bs{Bs(strings.SplitN(ps[len(ps)-1], ";", 2)[0] + ", */*;q=0.1")}
							} else {
								in.Lines = []Bs{"text/html"}
							}
						}
						out = append(out, in)
					}
				}
			}
		}
	}
	// an Accept header that is present and names no media range: codes x handler outcomes x produces shapes, the method and
	// the way the header is empty rotating; through the handler, and through a direct Respond with the route's produces
	n = 0
	for _, cs := range c08CodeSets[:7] {
		for _, d := range c08DataKinds {
			for _, ps := range c08ProduceSets {
				n++
				in := c08In{Kind: "serve", Defaults: "json", Method: c08Methods[n%3], Codes: cs, Data: d, Produces: toBs(ps)}
				for _, p := range ps {
					in.Register = append(in.Register, Bs(strings.SplitN(p, ";", 2)[0]))
				}
				in.Lines = append([]Bs{}, c08EmptyAccepts[n%len(c08EmptyAccepts)]...)
				if n%4 == 1 {
					in.Kind, in.Route, in.Arg = "direct", []string{"real", "nil", "noop"}[(n/4)%3], toBs(ps)
				}
				if n%9 == 5 {
					in.Defaults, in.Default = "custom", "text/plain"
				}
				out = append(out, in)
			}
		}
	}
	return out
}

// c08DefaultOf: the API default produces of a case.
func c08DefaultOf(in c08In) string {
	switch in.Defaults {
	case "none":
		return ""
	case "custom":
		return string(in.Default)
	}
	return runtime.JSONMime
}

var c08MissPaths = []string{"/nowhere", "/x/y", "/", "/X", "/xx", "/y"}

// c08RoutingLines: Accept lines for a routing case whose negotiation does not depend on the order of the offers.
func c08RoutingLines(r *rand.Rand, in c08In) []Bs {
	all := c08AllProduces(in)
	def := c08DefaultOf(in)
	var nonDef []string
	for _, p := range all {
		if string(p) != def {
			nonDef = append(nonDef, strings.SplitN(string(p), ";", 2)[0])
		}
	}
	if len(nonDef) > 0 && r.Intn(2) == 0 { // one produced type that is not the API default, alone or in front of lesser ranges
		l := nonDef[r.Intn(len(nonDef))] + []string{"", "", ";q=0.9", "; q=0.4", ";q=1"}[r.Intn(5)]
		l += []string{"", "", ", */*;q=0.1", ",image/png", ", application/json;q=0.2", ", text/*;q=0.05"}[r.Intn(6)]
		if c08OrderFree([]Bs{Bs(l)}, all, def) {
			return []Bs{Bs(l)}
		}
	}
	if r.Intn(6) == 0 { // present, without a media range: order-free where an absent header is
		if l := c08EmptyAccept(r); c08OrderFree(l, all, def) {
			return l
		}
	}
	for try := 0; try < 20; try++ {
		if l := c08Accept(r, all); c08OrderFree(l, all, def) {
			return l
		}
	}
	// nothing order-free was drawn: a range no offer matches leaves nothing to the order of the offers
	return []Bs{"x-none/x-none"}
}

func c08GenRouting(r *rand.Rand) c08In {
	in := c08In{Kind: "routing", Defaults: "json", Method: c08Methods[r.Intn(3)], Codes: []int{200}}
	switch r.Intn(8) {
	case 0:
		in.Defaults = "none"
	case 1:
		in.Defaults = "custom"
		in.Default = Bs([]string{"text/plain", "application/xml", "application/json; charset=utf-8", "text/csv"}[r.Intn(4)])
	}
	if r.Intn(2) == 0 {
		in.Miss, in.MissPath, in.Data = "path", c08MissPaths[r.Intn(len(c08MissPaths))], "err:404"
	} else {
		in.Miss, in.Data = "method", "err:405"
	}
	for len(c08AllProduces(in)) == 0 || len(c08AllProduces(in)) > 4 {
		in.Global, in.Produces = c08Produces(r), nil
		if r.Intn(2) == 0 {
			in.Produces = c08Produces(r)
		}
		if r.Intn(4) == 0 {
			in.Global = nil
		}
	}
	in.Register = c08Register(r, c08AllProduces(in))
	if in.Defaults == "custom" && r.Intn(4) != 0 {
		in.Register = append(in.Register, Bs(strings.SplitN(string(in.Default), ";", 2)[0]))
	}
	in.Lines = c08RoutingLines(r, in)
	return in
}

// c08EnumerateRouting: no such path / no such method x description-wide produces sets x an Accept header naming each
// produced type alone, nothing produced, anything, or absent (the last two only where the order of the offers is immaterial).
func c08EnumerateRouting() []any {
	var out []any
	sets := []struct{ global, op []string }{
		{[]string{"application/json", "application/xml"}, nil},
		{[]string{"application/xml"}, nil},
		{nil, []string{"text/plain"}},
		{[]string{"application/json"}, []string{"text/csv"}},
		{[]string{"application/xml", "text/plain; charset=utf-8"}, []string{"application/json", "text/csv"}},
		{[]string{"application/json"}, nil},
	}
	n := 0
	for _, miss := range []string{"path", "method"} {
		for _, set := range sets {
			base := c08In{Kind: "routing", Defaults: "json", Codes: []int{200}, Miss: miss, Global: toBs(set.global), Produces: toBs(set.op), Data: "err:405"}
			if miss == "path" {
				base.Data = "err:404"
			}
			all := c08AllProduces(base)
			accepts := [][]Bs{nil, {"*/*"}, {"image/png"}, {"image/png;q=0.9, text/html"}, {""}, {" "}, {","}, {"", ""}, {" , "}, {"\t"}}
			for _, p := range all {
				b := strings.SplitN(string(p), ";", 2)[0]
				accepts = append(accepts, []Bs{Bs(b)}, []Bs{Bs(b + ";q=0.8, */*;q=0.1")}, []Bs{Bs("image/png, " + b + ";q=0.3")})
				base.Register = append(base.Register, Bs(b))
			}
			for _, acc := range accepts {
				if !c08OrderFree(acc, all, runtime.JSONMime) {
					continue
				}
				n++
				in := base
				in.Lines = acc
				in.Method = c08Methods[n%3]
				if miss == "path" {
					in.MissPath = c08MissPaths[n%len(c08MissPaths)]
				}
				if n%7 == 0 {
					in.Defaults, in.Default = "custom", "application/xml"
					if !c08OrderFree(acc, all, "application/xml") {
						continue
					}
				}
				out = append(out, in)
			}
		}
	}
	return out
}

func c08Produces(r *rand.Rand) []Bs {
	n := r.Intn(5)
	var out []Bs
	for i := 0; i < n; i++ {
		mt := c08Media[r.Intn(len(c08Media))]
		switch r.Intn(12) {
		case 0, 1, 2:
			mt += c08Params[r.Intn(len(c08Params))]
		case 3:
			mt = strings.ToUpper(mt[:1]) + mt[1:]
		case 4:
			if len(out) > 0 {
				mt = string(out[r.Intn(len(out))])
			}
		}
		out = append(out, Bs(mt))
	}
	return out
}

// c08EmptyAccepts: Accept headers that are PRESENT and name no media range: empty values (a client or proxy sending
// the bare field name), blanks, separators only, several such lines, and values the parser gives up on at the first
// byte (it does not skip leading blanks; a parameter without a type; a separator in front). Such a header constrains
// nothing: the negotiation is that of an absent header. What each yields is decided by the model's parser (C07) in the
// case and by the real header.ParseAccept in the run, not by this table.
var c08EmptyAccepts = [][]Bs{
	{""}, {" "}, {","}, {"", ""}, {"\t"}, {" , "}, {", ,"}, {"  "}, {",,"}, {"", " ", ""}, {";q=0.5"}, {"/"}, {" ", ","}, {",", ""},
}

var c08EmptyFragments = []string{"", "", " ", "\t", ",", ", ,", " , ", "  ", ",,", ";q=0.5", "/", ";", " \t ", ",\t,"}

// c08EmptyAccept: one to three lines, none of which yields a media range.
func c08EmptyAccept(r *rand.Rand) []Bs {
	if r.Intn(2) == 0 {
		return append([]Bs{}, c08EmptyAccepts[r.Intn(len(c08EmptyAccepts))]...)
	}
	var lines []Bs
	for n := 1 + r.Intn(6)/4 + r.Intn(6)/5; n > 0; n-- {
		lines = append(lines, Bs(c08EmptyFragments[r.Intn(len(c08EmptyFragments))]))
	}
	return lines
}

// c08NoRange: the Accept header is present (at least one line) and the real parser finds no media range in it.
func c08NoRange(lines []Bs) bool {
	if len(lines) == 0 {
		return false
	}
	return len(header.ParseAccept(http.Header{"Accept": bsList(lines)}, "Accept")) == 0
}

func c08Accept(r *rand.Rand, produces []Bs) []Bs {
	switch r.Intn(9) {
	case 0, 1:
		return nil
	case 2:
		return []Bs{"*/*"}
	case 3:
		return c08EmptyAccept(r)
	}
	qs := []string{"", "", ";q=0.5", ";q=0.8", ";q=0", ";q=1", "; q=0.5", ";q=0.9;ext=1", ";level=1;q=0.7", ";q=0.300"}
	ws := []string{"", " ", "  ", "\t"}
	nl := 1 + r.Intn(6)/5
	var lines []Bs
	for l := 0; l < nl; l++ {
		var parts []string
		for j := 1 + r.Intn(4); j > 0; j-- {
			var v string
			switch k := r.Intn(10); {
			case k < 5 && len(produces) > 0:
				v = strings.SplitN(string(produces[r.Intn(len(produces))]), ";", 2)[0]
			case k < 7:
				v = c08Media[r.Intn(len(c08Media))]
			case k == 7:
				v = "*/*"
			case k == 8:
				v = []string{"text/*", "application/*", "image/*"}[r.Intn(3)]
			default:
				v = "application/json"
			}
			parts = append(parts, v+qs[r.Intn(len(qs))])
		}
		lines = append(lines, Bs(strings.Join(parts, ws[r.Intn(len(ws))]+","+ws[r.Intn(len(ws))])))
	}
	return lines
}

func c08Register(r *rand.Rand, produces []Bs) []Bs {
	var out []Bs
	mode := r.Intn(10)
	for _, p := range produces {
		base := strings.SplitN(string(p), ";", 2)[0]
		switch {
		case mode == 0 && r.Intn(3) == 0: // a registration is missing
		case mode == 1 && r.Intn(2) == 0: // registered with its parameters
			out = append(out, p)
		default:
			out = append(out, Bs(base))
		}
	}
	if r.Intn(8) == 0 {
		out = append(out, Bs(c08Media[r.Intn(len(c08Media))]))
	}
	return out
}

// c08RespOrders: (assigned before the Context is built, assigned after). Responder 0 is never assigned: an API nobody
// assigned a responder to keeps errors.ServeError, which cannot record.
var c08RespOrders = [][2][]int{
	{{1}, nil},       // the usual order
	{nil, {1}},       // the server is assembled first, its error responder is customised afterwards
	{{1}, {2}},       // replaced after assembly
	{{1, 2}, nil},    // replaced before assembly
	{nil, {1, 2}},    // assigned twice after assembly
	{{1}, {2, 1}},    // replaced and put back
	{{2, 1}, {3}},
}

// c08GenOrder draws the order of configuration of a case (most cases keep the usual one) and, for a history, the
// requests before which the shared API is given a new error responder.
func c08GenOrder(r *rand.Rand, in *c08In) {
	if r.Intn(3) == 0 {
		o := c08RespOrders[1+r.Intn(len(c08RespOrders)-1)]
		in.RBefore, in.RAfter = o[0], o[1]
	}
	next := 4
	for i := range in.Steps {
		if i > 0 && r.Intn(4) == 0 {
			in.Steps[i].RInstall = []int{next}
			next++
		}
	}
}

func (c08) Gen(r *rand.Rand, tier string, i int) any {
	in := c08Gen1(r, tier, i)
	c08GenOrder(r, &in)
	return in
}

func c08Gen1(r *rand.Rand, tier string, i int) c08In {
	if i%10 == 9 {
		return c08GenHist(r)
	}
	if i%10 == 4 {
		return c08GenRouting(r)
	}
	in := c08In{Kind: "serve", Defaults: "json"}
	switch r.Intn(12) {
	case 0:
		in.Defaults = "none"
	case 1:
		in.Defaults = "custom"
		in.Default = Bs([]string{"text/plain", "application/xml", "application/json; charset=utf-8", "text/csv"}[r.Intn(4)])
	}
	in.Method = c08Methods[r.Intn(3)]
	in.Codes = c08CodeSets[r.Intn(len(c08CodeSets))]
	in.Data = c08DataKinds[r.Intn(len(c08DataKinds))]
	if r.Intn(3) == 0 {
		in.Data = []string{"value", "resp:201", "err:422", "err:500", "resp:-1"}[r.Intn(5)]
	}
	in.Produces = c08Produces(r)
	in.Register = c08Register(r, in.Produces)
	if in.Defaults == "custom" && r.Intn(4) != 0 {
		in.Register = append(in.Register, Bs(strings.SplitN(string(in.Default), ";", 2)[0]))
	}
	in.Lines = c08Accept(r, in.Produces)
	if r.Intn(10) < 3 {
		in.Kind = "direct"
		in.Route = []string{"nil", "real", "real", "noop"}[r.Intn(4)]
		switch r.Intn(4) {
		case 0:
			in.Arg = c08Produces(r)
		case 1:
			in.Arg = append([]Bs{}, in.Produces...)
			if in.Defaults == "json" {
				in.Arg = append(in.Arg, Bs(runtime.JSONMime))
			}
		default:
			in.Arg = append([]Bs{}, in.Produces...)
			r.Shuffle(len(in.Arg), func(a, b int) { in.Arg[a], in.Arg[b] = in.Arg[b], in.Arg[a] })
		}
		if r.Intn(3) == 0 {
			in.UseCache = true
			in.CacheOffers = c08Produces(r)
			if r.Intn(2) == 0 {
				in.CacheOffers = append([]Bs{}, in.Arg...)
			}
		}
		if r.Intn(3) == 0 {
			in.Realm = Bs(c08Realms[r.Intn(len(c08Realms))])
			c08Attempt(r, &in)
			in.ErrCode = 401
			if r.Intn(2) == 0 {
				in.Data = []string{"err:401", "err:403", "err:composite:401"}[r.Intn(3)]
			}
		}
		return in
	}
	if r.Intn(4) == 0 {
		in.Auth = "basic"
		in.Realm = Bs(c08Realms[r.Intn(len(c08Realms))])
		c08Attempt(r, &in)
		in.ErrCode = []int{401, 403, 401}[r.Intn(3)]
	}
	return in
}
