//go:build verif && (c08 || allprops)

package main

import (
	"encoding/json"
	"fmt"
	"io"
	"math/rand"
	"net/http"
	"net/http/httptest"
	"sort"
	"strings"

	"github.com/go-openapi/errors"
	"github.com/go-openapi/loads"
	"github.com/go-openapi/runtime"
	"github.com/go-openapi/runtime/middleware"
	"github.com/go-openapi/runtime/middleware/untyped"
	"github.com/go-openapi/runtime/security"
)

// C08 — responses carry the declared status, the negotiated type and that type's encoding. Cases:
//   serve    one request through the real API handler (router, security, validation, handler, Respond) of a
//            one-operation description, with instrumented producers and an instrumented error responder
//   direct   Context.Respond called directly (nil route / route without operation / produces argument different
//            from the route's / a response format already stored in the request / a failed basic-auth marker)

type c08In struct {
	Kind     string `json:"kind"`               // serve | direct
	Defaults string `json:"defaults"`           // json | none | custom
	Default  Bs     `json:"default,omitempty"`  // custom: the API default produces
	Produces []Bs   `json:"produces"`           // operation-level produces as declared
	Register []Bs   `json:"register"`           // media types handed to RegisterProducer
	Lines    []Bs   `json:"lines,omitempty"`    // Accept header lines
	Method   string `json:"method"`             // HEAD GET POST
	Codes    []int  `json:"codes"`              // declared response codes, 0 = default
	Data     string `json:"data"`               // value | nil | resp:<code> | notimpl | custom | err:<code> | err:plain | err:composite:<code>
	Auth     string `json:"auth,omitempty"`     // "" | basic
	Realm    Bs     `json:"realm,omitempty"`
	Attempt  string `json:"attempt,omitempty"`  // none | bad | good
	ErrCode  int    `json:"err_code,omitempty"` // code of the error the authentication function returns
	// direct only
	Arg         []Bs   `json:"arg,omitempty"`          // produces argument of Respond
	Route       string `json:"route,omitempty"`        // nil | real | noop
	CacheOffers []Bs   `json:"cache_offers,omitempty"` // ResponseFormat is called with these first (stores its answer)
	UseCache    bool   `json:"use_cache,omitempty"`
}

type c08Call struct {
	Key Bs `json:"key"`
	Tag Bs `json:"tag"`
}

type c08Obs struct {
	Panic      int       `json:"panic,omitempty"` // 0 none, 1 nil dereference, 2 can't find a producer, 3 other
	PanicText  string    `json:"panic_text,omitempty"`
	Default    Bs        `json:"api_default"`
	Registered []Bs      `json:"registered"`     // keys under which producers are registered (after Register*'s normalisation)
	RouteProd  []Bs      `json:"route_produces"` // MatchedRoute.Produces in the order the route uses
	Cached     *Bs       `json:"cached,omitempty"`
	Marker     Bs        `json:"marker,omitempty"`
	CType      Bs        `json:"ctype"`
	Status     int       `json:"status"`
	WWW        []Bs      `json:"www,omitempty"`
	Calls      []c08Call `json:"calls,omitempty"`
	Body       Bs        `json:"body,omitempty"`
	Errs       []int     `json:"errs,omitempty"`
	Ran        bool      `json:"ran,omitempty"`
}

type c08 struct{}

func init() { register(c08{}) }

func (c08) ID() string        { return "C08" }
func (c08) CoqModule() string { return "Check_C08" }
func (c08) Rule() string {
	return "exhaustive matrix {HEAD,GET,POST} x declared codes {200,201,204,default-only,several,non-2xx+2xx,none} x handler outcomes " +
		"{value,nil,errorResp(0/404),NotImplemented,custom Responder,error(coded/plain/composite)} x produces shapes (empty, with parameters, several, default included) x {no Accept, Accept}; " +
		"random: produces lists with parameters/case variants/duplicates, default producer json/none/custom, registrations complete/partial/raw, Accept headers from a range grammar, " +
		"basic auth with realms (quotes, backslashes, empty) x attempts; direct Respond calls with nil route, route without operation, foreign produces argument, pre-stored format, realm marker. " +
		"Non-trivial: the answer is produced by Respond with at least two offers, or a body is written, or an error/406/401 path is taken with a negotiated type."
}

func (c08) Decode(raw json.RawMessage) (any, error) {
	var in c08In
	err := json.Unmarshal(raw, &in)
	return in, err
}

// ---- instrumentation ----

type c08Payload struct{ tag string }

type c08Log struct {
	calls []c08Call
	errs  []int
}

type c08Producer struct {
	key string
	log *c08Log
}

func c08Tag(v interface{}) string {
	switch x := v.(type) {
	case nil:
		return "nil"
	case string:
		return x
	case c08Payload:
		return x.tag
	case *c08Payload:
		return x.tag
	default:
		return "?"
	}
}

func (p *c08Producer) Produce(w io.Writer, v interface{}) error {
	t := c08Tag(v)
	p.log.calls = append(p.log.calls, c08Call{Bs(p.key), Bs(t)})
	_, err := w.Write([]byte(p.key + ":" + t))
	return err
}

// c08Writer records the first explicit WriteHeader, the headers and the body.
type c08Writer struct {
	h      http.Header
	status int
	body   []byte
}

func (w *c08Writer) Header() http.Header { return w.h }
func (w *c08Writer) WriteHeader(c int) {
	if w.status == 0 {
		w.status = c
	}
}
func (w *c08Writer) Write(b []byte) (int, error) { w.body = append(w.body, b...); return len(b), nil }

func c08ErrCode(err error) int {
	if ce, ok := err.(*errors.CompositeError); ok && len(ce.Errors) > 0 {
		return c08ErrCode(ce.Errors[0])
	}
	if c, ok := err.(interface{ Code() int32 }); ok {
		return int(c.Code())
	}
	return 0
}

// ---- setup ----

func c08Doc(in c08In) string {
	op := map[string]any{}
	if len(in.Produces) > 0 {
		op["produces"] = bsList(in.Produces)
	}
	resp := map[string]any{}
	for _, c := range in.Codes {
		if c == 0 {
			resp["default"] = map[string]any{"description": "d"}
		} else {
			resp[fmt.Sprint(c)] = map[string]any{"description": "r"}
		}
	}
	op["responses"] = resp
	doc := map[string]any{
		"swagger": "2.0", "info": map[string]any{"title": "t", "version": "1"},
		"paths": map[string]any{"/x": map[string]any{strings.ToLower(in.Method): op}},
	}
	if in.Auth == "basic" {
		op["security"] = []any{map[string]any{"basic": []string{}}}
		doc["securityDefinitions"] = map[string]any{"basic": map[string]any{"type": "basic"}}
	}
	b, _ := json.Marshal(doc)
	return string(b)
}

func c08Data(s string) (interface{}, string) {
	switch {
	case s == "value":
		return c08Payload{"v"}, "v"
	case s == "nil":
		return nil, "nil"
	case strings.HasPrefix(s, "resp:"):
		var code int
		fmt.Sscanf(s[5:], "%d", &code)
		return middleware.Error(code, c08Payload{"p"}, http.Header{"X-Extra": []string{"1"}}), "p"
	case s == "notimpl":
		return middleware.NotImplemented("ni"), "ni"
	case s == "custom":
		return middleware.ResponderFunc(func(rw http.ResponseWriter, p runtime.Producer) {
			rw.WriteHeader(202)
			_ = p.Produce(rw, c08Payload{"c"})
		}), "c"
	case s == "err:plain":
		return fmt.Errorf("plain"), ""
	case strings.HasPrefix(s, "err:composite:"):
		var code int
		fmt.Sscanf(s[14:], "%d", &code)
		return errors.CompositeValidationError(errors.New(int32(code), "inner")), ""
	case strings.HasPrefix(s, "err:"):
		var code int
		fmt.Sscanf(s[4:], "%d", &code)
		return errors.New(int32(code), "boom"), ""
	}
	panic("bad data kind " + s)
}

// c08CoqData renders the data kind for the model.
func c08CoqData(s string) string {
	switch {
	case s == "value", s == "nil":
		return "DValue"
	case strings.HasPrefix(s, "resp:"):
		var code int
		fmt.Sscanf(s[5:], "%d", &code)
		return fmt.Sprintf("(DResponder %s)", coqZ(int64(code)))
	case s == "notimpl":
		return "(DResponder (501)%Z)"
	case s == "custom":
		return "(DResponder (202)%Z)"
	case s == "err:plain":
		return "(DError 0)"
	case strings.HasPrefix(s, "err:composite:"):
		var code int
		fmt.Sscanf(s[14:], "%d", &code)
		return fmt.Sprintf("(DError %d)", code)
	case strings.HasPrefix(s, "err:"):
		var code int
		fmt.Sscanf(s[4:], "%d", &code)
		return fmt.Sprintf("(DError %d)", code)
	}
	panic("bad data kind " + s)
}

func c08Authenticator(in c08In) runtime.Authenticator {
	return security.BasicAuthRealm(string(in.Realm), func(u, p string) (interface{}, error) {
		if p == "good" {
			return "principal", nil
		}
		return nil, errors.New(int32(in.ErrCode), "bad credentials")
	})
}

func (c08) Run(inAny any) any {
	in := inAny.(c08In)
	var obs c08Obs
	log := &c08Log{}
	rw := &c08Writer{h: http.Header{}}
	panicked, msg := recoverTo(func() {
		doc, err := loads.Analyzed(json.RawMessage(c08Doc(in)), "")
		if err != nil {
			panic(err)
		}
		api := untyped.NewAPI(doc)
		switch in.Defaults {
		case "none":
			api.WithoutJSONDefaults()
		case "custom":
			api.WithoutJSONDefaults()
			api.DefaultProduces = string(in.Default)
		default:
			api.RegisterProducer(runtime.JSONMime, &c08Producer{runtime.JSONMime, log})
		}
		for _, mt := range in.Register {
			k := strings.ToLower(string(mt))
			api.RegisterProducer(string(mt), &c08Producer{k, log})
		}
		api.ServeError = func(w http.ResponseWriter, r *http.Request, err error) {
			log.errs = append(log.errs, c08ErrCode(err))
			w.WriteHeader(599)
		}
		data, _ := c08Data(in.Data)
		api.RegisterOperation(in.Method, "/x", runtime.OperationHandlerFunc(func(interface{}) (interface{}, error) {
			obs.Ran = true
			if e, ok := data.(error); ok {
				return nil, e
			}
			return data, nil
		}))
		if in.Auth == "basic" {
			api.RegisterAuth("basic", c08Authenticator(in))
		}
		obs.Default = Bs(api.DefaultProduces)
		// registered keys: probe through the public ProducersFor
		seen := map[string]bool{}
		probe := []string{runtime.JSONMime}
		for _, mt := range in.Register {
			probe = append(probe, strings.ToLower(string(mt)))
		}
		for k := range api.ProducersFor(probe) {
			if !seen[k] {
				seen[k] = true
				obs.Registered = append(obs.Registered, Bs(k))
			}
		}
		sort.Slice(obs.Registered, func(i, j int) bool { return obs.Registered[i] < obs.Registered[j] })

		ctx := middleware.NewContext(doc, api, nil)
		h := ctx.APIHandler(nil)
		req := httptest.NewRequest(in.Method, "/x", nil)
		if len(in.Lines) > 0 {
			req.Header["Accept"] = bsList(in.Lines)
		}
		mr, _, ok := ctx.RouteInfo(req)
		if !ok {
			panic("route not found")
		}
		obs.RouteProd = toBs(mr.Produces)

		if in.Kind == "serve" {
			if in.Auth == "basic" {
				switch in.Attempt {
				case "bad":
					req.SetBasicAuth("u", "bad")
				case "good":
					req.SetBasicAuth("u", "good")
				}
			}
			h.ServeHTTP(rw, req)
			return
		}
		// direct
		if len(in.Realm) > 0 || in.Attempt != "" {
			if in.Attempt == "bad" || in.Attempt == "good" {
				req.SetBasicAuth("u", in.Attempt)
			}
			_, _, _ = c08Authenticator(in).Authenticate(req)
		}
		obs.Marker = Bs(security.FailedBasicAuth(req))
		if in.UseCache {
			var f string
			f, req = ctx.ResponseFormat(req, bsList(in.CacheOffers))
			if f != "" {
				b := Bs(f)
				obs.Cached = &b
			}
		}
		var route *middleware.MatchedRoute
		switch in.Route {
		case "real":
			route = mr
		case "noop":
			route = mr
			route.Operation = nil
		}
		ctx.Respond(rw, req, bsList(in.Arg), route, data)
	})
	if panicked {
		switch {
		case strings.Contains(msg, "nil pointer dereference"):
			obs.Panic = 1
		case strings.Contains(msg, "can't find a producer for"):
			obs.Panic = 2
		default:
			obs.Panic = 3
		}
		obs.PanicText = msg
	}
	obs.Status = rw.status
	if v := rw.h["Content-Type"]; len(v) > 0 {
		obs.CType = Bs(strings.Join(v, "\x00"))
	}
	obs.WWW = toBs(rw.h["Www-Authenticate"])
	obs.Calls = log.calls
	obs.Body = Bs(rw.body)
	obs.Errs = log.errs
	return obs
}

// ---- Gallina ----

func c08CoqObs(o c08Obs) string {
	calls := coqList(o.Calls, func(c c08Call) string { return coqPair(coqBytes(string(c.Key)), coqBytes(string(c.Tag))) })
	errs := coqList(o.Errs, func(e int) string { return coqNatBig(e) })
	return fmt.Sprintf("(mkobs %d %s %s %s %s %s %s)", o.Panic, coqBytes(string(o.CType)), coqNatBig(o.Status),
		coqBytesList(bsList(o.WWW)), calls, coqBytes(string(o.Body)), errs)
}

func c08Codes(codes []int) string {
	var cs []int
	for _, c := range codes {
		if c != 0 {
			cs = append(cs, c)
		}
	}
	return coqList(cs, func(c int) string { return coqNatBig(c) })
}

func (c08) Coq(inAny any, obsAny any) string {
	in, obs := inAny.(c08In), obsAny.(c08Obs)
	_, tag := c08Data(in.Data)
	head := coqBool(in.Method == "HEAD")
	if in.Kind == "serve" {
		auth := "NoAuth"
		if in.Auth == "basic" {
			att := map[string]string{"none": "NoCreds", "bad": "BadCreds", "good": "GoodCreds"}[in.Attempt]
			auth = fmt.Sprintf("(Basic %s %s %s)", coqBytes(string(in.Realm)), att, coqNatBig(in.ErrCode))
		}
		return fmt.Sprintf("CServe %s %s %s %s %s %s %s %s %s %s %s %s",
			coqBytes(string(obs.Default)), coqBytesList(bsList(obs.Registered)), coqBytesList(bsList(in.Produces)), coqBytesList(bsList(obs.RouteProd)),
			c08Codes(in.Codes), coqBytesList(bsList(in.Lines)), head, auth, c08CoqData(in.Data), coqBytes(tag),
			coqBool(obs.Ran), c08CoqObs(obs))
	}
	route := "None"
	switch in.Route {
	case "real":
		route = fmt.Sprintf("(Some (mkroute %s true %s))", coqBytesList(bsList(obs.RouteProd)), c08Codes(in.Codes))
	case "noop":
		route = fmt.Sprintf("(Some (mkroute %s false %s))", coqBytesList(bsList(obs.RouteProd)), c08Codes(in.Codes))
	}
	cached := "None"
	if obs.Cached != nil {
		cached = "(Some " + coqBytes(string(*obs.Cached)) + ")"
	}
	return fmt.Sprintf("CDirect %s %s %s %s %s %s %s %s %s %s %s",
		coqBytes(string(obs.Default)), coqBytesList(bsList(obs.Registered)), coqBytesList(bsList(in.Arg)), route, cached,
		coqBytesList(bsList(in.Lines)), head, coqBytes(string(obs.Marker)), c08CoqData(in.Data), coqBytes(tag), c08CoqObs(obs))
}

func (c08) Classify(inAny any, obsAny any) []string { return nil }

func (c08) Category(inAny any, obsAny any) (string, bool) {
	in, obs := inAny.(c08In), obsAny.(c08Obs)
	code := "default-only"
	min := 0
	for _, c := range in.Codes {
		if c >= 200 && c < 300 && (min == 0 || c < min) {
			min = c
		}
	}
	if min != 0 {
		code = fmt.Sprint(min)
	}
	if len(in.Codes) == 0 {
		code = "none"
	}
	data := in.Data
	if i := strings.Index(data, ":"); i >= 0 {
		data = data[:i]
	}
	params := ""
	for _, p := range append(append([]Bs{}, in.Produces...), in.Arg...) {
		if strings.Contains(string(p), ";") {
			params = "+params"
			break
		}
	}
	acc := "no-accept"
	if len(in.Lines) > 0 {
		acc = "accept"
	}
	outcome := "answered"
	switch {
	case obs.Panic != 0:
		outcome = "panic"
	case len(obs.Errs) > 0:
		outcome = fmt.Sprintf("error-%d", obs.Errs[0])
	case len(obs.Calls) > 0:
		outcome = "body"
	default:
		outcome = "no-body"
	}
	extra := ""
	if in.Kind == "direct" {
		extra = "/route-" + in.Route
		if obs.Cached != nil {
			extra += "+cached"
		}
		if obs.Marker != "" {
			extra += "+marker"
		}
	} else if in.Auth == "basic" {
		extra = "/basic-" + in.Attempt
	}
	cat := fmt.Sprintf("%s/%s/%s/%s%s/%s/%s/def-%s%s", in.Kind, in.Method, code, data, params, acc, outcome, in.Defaults, extra)
	nontrivial := len(obs.Calls) > 0 || len(obs.Errs) > 0 || len(obs.RouteProd) >= 2 || len(in.Arg) >= 2
	return cat, nontrivial
}

// ---- generation ----

var c08Methods = []string{"HEAD", "GET", "POST"}
var c08CodeSets = [][]int{{200}, {201}, {204}, {0}, {200, 201, 204}, {404, 201, 0}, {}, {204, 200}, {299, 300}, {500, 0}}
var c08DataKinds = []string{"value", "nil", "resp:0", "resp:404", "notimpl", "custom", "err:404", "err:plain", "err:composite:409"}
var c08ProduceSets = [][]string{
	{},
	{"text/plain; charset=utf-8"},
	{"application/json", "text/plain"},
	{"text/csv", "application/xml;v=2", "text/plain"},
}
var c08Media = []string{"text/plain", "application/json", "application/xml", "text/csv", "text/html", "image/png", "application/vnd.api+json"}
var c08Params = []string{"; charset=utf-8", ";v=2", "; q=0.5", ";charset=UTF-8;x=1"}
var c08Realms = []string{"", "API", "my realm", `a"b`, `back\slash`, `"`, `\"`, "x"}

func (c08) Enumerate(tier string) []any {
	var out []any
	for _, m := range c08Methods {
		for _, cs := range c08CodeSets[:7] {
			for _, d := range c08DataKinds {
				for _, ps := range c08ProduceSets {
					for acc := 0; acc < 2; acc++ {
						in := c08In{Kind: "serve", Defaults: "json", Method: m, Codes: cs, Data: d, Produces: toBs(ps)}
						for _, p := range ps {
							in.Register = append(in.Register, Bs(strings.SplitN(p, ";", 2)[0]))
						}
						if acc == 1 {
							if len(ps) > 0 {
								in.Lines = []Bs{Bs(strings.SplitN(ps[len(ps)-1], ";", 2)[0] + ", */*;q=0.1")}
							} else {
								in.Lines = []Bs{"text/html"}
							}
						}
						out = append(out, in)
					}
				}
			}
		}
	}
	return out
}

func c08Produces(r *rand.Rand) []Bs {
	n := r.Intn(5)
	var out []Bs
	for i := 0; i < n; i++ {
		mt := c08Media[r.Intn(len(c08Media))]
		switch r.Intn(12) {
		case 0, 1, 2:
			mt += c08Params[r.Intn(len(c08Params))]
		case 3:
			mt = strings.ToUpper(mt[:1]) + mt[1:]
		case 4:
			if len(out) > 0 {
				mt = string(out[r.Intn(len(out))])
			}
		}
		out = append(out, Bs(mt))
	}
	return out
}

func c08Accept(r *rand.Rand, produces []Bs) []Bs {
	switch r.Intn(8) {
	case 0, 1:
		return nil
	case 2:
		return []Bs{"*/*"}
	}
	qs := []string{"", "", ";q=0.5", ";q=0.8", ";q=0", ";q=1", "; q=0.5", ";q=0.9;ext=1", ";level=1;q=0.7", ";q=0.300"}
	ws := []string{"", " ", "  ", "\t"}
	nl := 1 + r.Intn(6)/5
	var lines []Bs
	for l := 0; l < nl; l++ {
		var parts []string
		for j := 1 + r.Intn(4); j > 0; j-- {
			var v string
			switch k := r.Intn(10); {
			case k < 5 && len(produces) > 0:
				v = strings.SplitN(string(produces[r.Intn(len(produces))]), ";", 2)[0]
			case k < 7:
				v = c08Media[r.Intn(len(c08Media))]
			case k == 7:
				v = "*/*"
			case k == 8:
				v = []string{"text/*", "application/*", "image/*"}[r.Intn(3)]
			default:
				v = "application/json"
			}
			parts = append(parts, v+qs[r.Intn(len(qs))])
		}
		lines = append(lines, Bs(strings.Join(parts, ws[r.Intn(len(ws))]+","+ws[r.Intn(len(ws))])))
	}
	return lines
}

func c08Register(r *rand.Rand, produces []Bs) []Bs {
	var out []Bs
	mode := r.Intn(10)
	for _, p := range produces {
		base := strings.SplitN(string(p), ";", 2)[0]
		switch {
		case mode == 0 && r.Intn(3) == 0: // a registration is missing
		case mode == 1 && r.Intn(2) == 0: // registered with its parameters
			out = append(out, p)
		default:
			out = append(out, Bs(base))
		}
	}
	if r.Intn(8) == 0 {
		out = append(out, Bs(c08Media[r.Intn(len(c08Media))]))
	}
	return out
}

func (c08) Gen(r *rand.Rand, tier string, i int) any {
	in := c08In{Kind: "serve", Defaults: "json"}
	switch r.Intn(12) {
	case 0:
		in.Defaults = "none"
	case 1:
		in.Defaults = "custom"
		in.Default = Bs([]string{"text/plain", "application/xml", "application/json; charset=utf-8", "text/csv"}[r.Intn(4)])
	}
	in.Method = c08Methods[r.Intn(3)]
	in.Codes = c08CodeSets[r.Intn(len(c08CodeSets))]
	in.Data = c08DataKinds[r.Intn(len(c08DataKinds))]
	if r.Intn(3) == 0 {
		in.Data = []string{"value", "resp:201", "err:422", "err:500", "resp:-1"}[r.Intn(5)]
	}
	in.Produces = c08Produces(r)
	in.Register = c08Register(r, in.Produces)
	if in.Defaults == "custom" && r.Intn(4) != 0 {
		in.Register = append(in.Register, Bs(strings.SplitN(string(in.Default), ";", 2)[0]))
	}
	in.Lines = c08Accept(r, in.Produces)
	if r.Intn(10) < 3 {
		in.Kind = "direct"
		in.Route = []string{"nil", "real", "real", "noop"}[r.Intn(4)]
		switch r.Intn(4) {
		case 0:
			in.Arg = c08Produces(r)
		case 1:
			in.Arg = append([]Bs{}, in.Produces...)
			if in.Defaults == "json" {
				in.Arg = append(in.Arg, Bs(runtime.JSONMime))
			}
		default:
			in.Arg = append([]Bs{}, in.Produces...)
			r.Shuffle(len(in.Arg), func(a, b int) { in.Arg[a], in.Arg[b] = in.Arg[b], in.Arg[a] })
		}
		if r.Intn(3) == 0 {
			in.UseCache = true
			in.CacheOffers = c08Produces(r)
			if r.Intn(2) == 0 {
				in.CacheOffers = append([]Bs{}, in.Arg...)
			}
		}
		if r.Intn(3) == 0 {
			in.Realm = Bs(c08Realms[r.Intn(len(c08Realms))])
			in.Attempt = []string{"none", "bad", "good"}[r.Intn(3)]
			in.ErrCode = 401
		}
		return in
	}
	if r.Intn(4) == 0 {
		in.Auth = "basic"
		in.Realm = Bs(c08Realms[r.Intn(len(c08Realms))])
		in.Attempt = []string{"none", "bad", "good", "good"}[r.Intn(4)]
		in.ErrCode = []int{401, 403, 401}[r.Intn(3)]
	}
	return in
}
