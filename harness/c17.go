//go:build verif && (c17 || allprops)

package main

import (
	"encoding/json"
	"errors"
	"fmt"
	"io"
	"math/rand"
	"net/http"
	"strings"

	"github.com/go-openapi/runtime"
)

// C17 — probing a request for a body. One case = one request (Content-Length settings, nil or
// scripted body) and one history of HasBody / Read k / Close calls made through the public API
// (runtime.HasBody(req), req.Body.Read, req.Body.Close). The scripted stream implements exactly
// StreamScripts.sread; the outputs of every call and the stream's Close counter are compared
// step by step with the model (Peek.run) and judged by PeekSpec.history_ok.

type c17Step struct {
	C Bs  `json:"c"`
	T int `json:"t"` // 0 no terminal, 1 io.EOF, n>=2 scripted error number n-2
}

type c17Op struct {
	K string `json:"k"` // has | read | close
	N int    `json:"n,omitempty"`
}

type c17In struct {
	CL    int64     `json:"cl"`
	Hdr   Bs        `json:"hdr"`            // Content-Length header value ("" = absent)
	Nil   bool      `json:"nil,omitempty"`  // r.Body == nil
	CErr  int       `json:"cerr,omitempty"` // 0: stream Close returns nil, n>=2: scripted error n-2
	Steps []c17Step `json:"steps"`
	Ops   []c17Op   `json:"ops"`
	Shape string    `json:"shape,omitempty"` // how the generator chunked the body (for the report only)
}

type c17Out struct {
	K string `json:"k"` // has | read | close | nobody | panic
	B bool   `json:"b,omitempty"`
	D Bs     `json:"d,omitempty"`
	E string `json:"e,omitempty"` // error class, "" = nil
	P string `json:"p,omitempty"` // panic text
}

type c17Obs struct {
	Outs   []c17Out `json:"outs"`
	Closes int      `json:"closes"`
}

type c17Err struct{ n int }

func (e *c17Err) Error() string { return fmt.Sprintf("scripted error %d", e.n) }

func c17Term(t int) error {
	switch {
	case t == 0:
		return nil
	case t == 1:
		return io.EOF
	default:
		return &c17Err{t - 2}
	}
}

// c17Stream is StreamScripts.sread as an io.ReadCloser.
type c17Stream struct {
	steps  []c17Step
	dead   error
	closes int
	cerr   error
}

func (s *c17Stream) Read(p []byte) (int, error) {
	if s.dead != nil {
		return 0, s.dead
	}
	if len(s.steps) == 0 {
		s.dead = io.EOF
		return 0, io.EOF
	}
	st := &s.steps[0]
	if len(st.C) <= len(p) {
		n := copy(p, st.C)
		t := c17Term(st.T)
		s.steps = s.steps[1:]
		if t != nil {
			s.dead = t
		}
		return n, t
	}
	n := copy(p, st.C[:len(p)])
	st.C = st.C[n:]
	return n, nil
}

func (s *c17Stream) Close() error { s.closes++; return s.cerr }

func c17ErrClass(err error) string {
	var se *c17Err
	switch {
	case err == nil:
		return ""
	case err == io.EOF:
		return "EOF"
	case errors.As(err, &se):
		return fmt.Sprintf("S%d", se.n)
	case err == io.ErrNoProgress:
		return "NoProgress"
	case err == io.ErrUnexpectedEOF:
		return "UnexpectedEOF"
	case err == io.ErrShortWrite:
		return "ShortWrite"
	case err.Error() == "reader already closed":
		return "Closed"
	default:
		return "O:" + err.Error()
	}
}

func c17CoqErr(class string) string {
	switch {
	case class == "":
		return "None"
	case class == "EOF":
		return "(Some EOF)"
	case class[0] == 'S' && class != "ShortWrite":
		return "(Some (EScript " + class[1:] + "))"
	case class == "NoProgress":
		return "(Some ENoProgress)"
	case class == "UnexpectedEOF":
		return "(Some EUnexpectedEOF)"
	case class == "ShortWrite":
		return "(Some EShortWrite)"
	case class == "Closed":
		return "(Some EClosed)"
	default:
		return "(Some (EOther 0))"
	}
}

type c17 struct{}

func init() { register(c17{}) }

func (c17) ID() string        { return "C17" }
func (c17) CoqModule() string { return "Check_C17" }
func (c17) Rule() string {
	return "requests: ContentLength in {-1,0,positive} x Content-Length header absent/0/other x nil or scripted body; bodies 0..~10 KB " +
		"(sizes around the 4096-byte buffer), chunked 1-byte / random / buffer-boundary / single, with zero-length reads (runs up to 101), " +
		"terminal EOF separate, data+EOF, none, or a scripted error after any byte (data+error or separate); histories of 1..14 calls of " +
		"HasBody, Read k (k in 0,1,small,4095,4096,4097,large) and Close in any order incl. probes after reads, reads after close, double close. " +
		"Non-trivial: a non-nil body, at least one probing HasBody (no positive length, no header) and at least one Read or Close after it."
}

func (c17) Decode(raw json.RawMessage) (any, error) {
	var in c17In
	err := json.Unmarshal(raw, &in)
	return in, err
}

func (c17) Enumerate(tier string) []any {
	var out []any
	body := "hello, world"
	ops := func(s string) []c17Op {
		var o []c17Op
		for _, f := range strings.Fields(s) {
			switch f[0] {
			case 'h':
				o = append(o, c17Op{K: "has"})
			case 'c':
				o = append(o, c17Op{K: "close"})
			default:
				var n int
				fmt.Sscanf(f[1:], "%d", &n)
				o = append(o, c17Op{K: "read", N: n})
			}
		}
		return o
	}
	hist := []string{"h r5 r100 r1 c", "h h r3 h r100 r1 c c r1 h r1", "r4 h r100 r1", "h c r1 r0 h r1 c", "c h r1 c", "h r0 r0 r1 r4096 r1", "h", "h h h", "h r5000 r5000"}
	// error / EOF at every offset of a short body, every terminal placement, 1-byte chunks and whole
	for off := 0; off <= len(body); off++ {
		for _, term := range []int{1, 2} {
			for _, together := range []bool{false, true} {
				for _, one := range []bool{false, true} {
					var steps []c17Step
					if one {
						for i := 0; i < off; i++ {
							steps = append(steps, c17Step{C: Bs(body[i : i+1])})
						}
					} else if off > 0 {
						steps = append(steps, c17Step{C: Bs(body[:off])})
					}
					if together && len(steps) > 0 {
						steps[len(steps)-1].T = term
					} else {
						steps = append(steps, c17Step{T: term})
					}
					for hi, h := range hist {
						if tier == "quick" && (off*7+hi)%3 != 0 {
							continue
						}
						out = append(out, c17In{CL: -1, Steps: steps, Ops: ops(h), Shape: "enum"})
					}
				}
			}
		}
	}
	// the empty-read guard: 99, 100, 101 zero-length reads before the first byte
	for _, z := range []int{0, 1, 99, 100, 101, 199, 200} {
		var steps []c17Step
		for i := 0; i < z; i++ {
			steps = append(steps, c17Step{})
		}
		steps = append(steps, c17Step{C: "x"}, c17Step{T: 1})
		out = append(out, c17In{CL: 0, Steps: steps, Ops: ops("h h r1 r1 r1"), Shape: "stall"})
		out = append(out, c17In{CL: 0, Steps: steps, Ops: ops("r1 h r1 r1"), Shape: "stall"})
	}
	// nil body and the length fast paths
	for _, cl := range []int64{-1, 0, 7} {
		for _, hdr := range []string{"", "0", "7"} {
			for _, h := range []string{"h", "h h", "h c", "h r1 c", "h h c c r1", "h c h r1 c", "h r1"} {
				out = append(out, c17In{CL: cl, Hdr: Bs(hdr), Nil: true, Ops: ops(h), Shape: "nil"})
			}
			out = append(out, c17In{CL: cl, Hdr: Bs(hdr), Steps: []c17Step{{C: "abc", T: 1}}, Ops: ops("h r2 h r2 r2 c c"), Shape: "enum"})
			out = append(out, c17In{CL: cl, Hdr: Bs(hdr), Steps: []c17Step{{T: 1}}, Ops: ops("h r2 h c"), Shape: "enum"})
		}
	}
	return out
}

var c17Sizes = []int{0, 0, 1, 2, 3, 7, 16, 100, 511, 1000, 4095, 4096, 4097, 5000, 8191, 8192, 8193, 10000}
var c17Reads = []int{0, 1, 1, 2, 3, 5, 16, 100, 512, 4095, 4096, 4097, 5000, 9000, 20000}

func c17Body(r *rand.Rand, n int) []byte {
	b := make([]byte, n)
	switch r.Intn(3) {
	case 0: // position-revealing pattern: any reordering or duplication changes it
		for i := range b {
			b[i] = byte((i*7 + i/251) % 256)
		}
	default:
		r.Read(b)
	}
	return b
}

func (c17) Gen(r *rand.Rand, tier string, i int) any {
	in := c17In{}
	switch r.Intn(8) {
	case 0:
		in.CL = int64(1 + r.Intn(100))
	case 1, 2:
		in.CL = 0
	default:
		in.CL = -1
	}
	switch r.Intn(10) {
	case 0:
		in.Hdr = "0"
	case 1:
		in.Hdr = Bs(fmt.Sprint(r.Intn(50)))
	}
	if r.Intn(25) == 0 {
		in.Nil = true
	}
	if r.Intn(6) == 0 {
		in.CErr = 2 + r.Intn(3)
	}
	// body
	size := c17Sizes[r.Intn(len(c17Sizes))]
	if r.Intn(3) == 0 {
		size = r.Intn(300)
	}
	if tier == "quick" && size > 5000 && r.Intn(3) != 0 {
		size = r.Intn(5000)
	}
	body := c17Body(r, size)
	// terminal
	term := 1
	cut := len(body)
	switch r.Intn(6) {
	case 0: // scripted error after a prefix
		term = 2 + r.Intn(3)
		cut = r.Intn(len(body) + 1)
	case 1:
		term = 2 + r.Intn(3)
	case 2:
		term = 0 // the script just runs out (EOF)
	}
	body = body[:cut]
	// chunking
	var steps []c17Step
	shape := []string{"one", "bytes", "random", "boundary", "small"}[r.Intn(5)]
	if shape == "bytes" && len(body) > 400 {
		shape = "random"
	}
	rest := body
	for len(rest) > 0 {
		var n int
		switch shape {
		case "one":
			n = len(rest)
		case "bytes":
			n = 1
		case "random":
			n = 1 + r.Intn(3000)
		case "boundary":
			n = []int{4095, 4096, 4097, 1, 8192, 4096}[r.Intn(6)]
		default:
			n = 1 + r.Intn(9)
			if len(rest) > 200 {
				n = len(rest) - 100 - r.Intn(50)
			}
		}
		if n > len(rest) {
			n = len(rest)
		}
		if r.Intn(5) == 0 { // zero-length reads in between
			z := 1 + r.Intn(3)
			if r.Intn(12) == 0 {
				z = []int{98, 99, 100, 101}[r.Intn(4)]
			}
			for j := 0; j < z; j++ {
				steps = append(steps, c17Step{})
			}
		}
		steps = append(steps, c17Step{C: Bs(rest[:n])})
		rest = rest[n:]
	}
	if term != 0 {
		if len(steps) > 0 && steps[len(steps)-1].C != "" && r.Intn(2) == 0 {
			steps[len(steps)-1].T = term // data together with the terminal
		} else {
			if r.Intn(6) == 0 {
				steps = append(steps, c17Step{})
			}
			steps = append(steps, c17Step{T: term})
		}
	}
	if r.Intn(10) == 0 { // steps after the terminal are never reached
		steps = append(steps, c17Step{C: "ghost"})
	}
	in.Steps, in.Shape = steps, shape
	// history
	n := 1 + r.Intn(14)
	closeP := 8
	if r.Intn(3) == 0 {
		closeP = 3
	}
	for j := 0; j < n; j++ {
		switch x := r.Intn(closeP + 8); {
		case x < 3 || (j == 0 && x < 6):
			in.Ops = append(in.Ops, c17Op{K: "has"})
		case x < closeP+7:
			k := c17Reads[r.Intn(len(c17Reads))]
			if r.Intn(4) == 0 {
				k = 1 + r.Intn(40)
			}
			in.Ops = append(in.Ops, c17Op{K: "read", N: k})
		default:
			in.Ops = append(in.Ops, c17Op{K: "close"})
		}
	}
	if r.Intn(3) == 0 { // drain what is left, so that the terminal condition is observed
		for j := 0; j < 6; j++ {
			in.Ops = append(in.Ops, c17Op{K: "read", N: 20000})
		}
	}
	return in
}

func (c17) Run(inAny any) any {
	in := inAny.(c17In)
	obs := c17Obs{}
	req := &http.Request{Method: "POST", Header: http.Header{}, ContentLength: in.CL}
	if in.Hdr != "" {
		req.Header.Set("Content-Length", string(in.Hdr))
	}
	var stream *c17Stream
	if !in.Nil {
		steps := make([]c17Step, len(in.Steps))
		copy(steps, in.Steps)
		stream = &c17Stream{steps: steps, cerr: c17Term(in.CErr)}
		req.Body = stream
	}
	for _, op := range in.Ops {
		var o c17Out
		panicked, msg := recoverTo(func() {
			switch op.K {
			case "has":
				o = c17Out{K: "has", B: runtime.HasBody(req)}
			case "read":
				if req.Body == nil {
					o = c17Out{K: "nobody"}
					return
				}
				buf := make([]byte, op.N)
				for i := range buf {
					buf[i] = 0xAA
				}
				n, err := req.Body.Read(buf)
				if n < 0 || n > len(buf) {
					o = c17Out{K: "read", E: fmt.Sprintf("O:bad count %d", n)}
					return
				}
				o = c17Out{K: "read", D: Bs(buf[:n]), E: c17ErrClass(err)}
			case "close":
				if req.Body == nil {
					o = c17Out{K: "nobody"}
					return
				}
				o = c17Out{K: "close", E: c17ErrClass(req.Body.Close())}
			}
		})
		if panicked {
			obs.Outs = append(obs.Outs, c17Out{K: "panic", P: msg})
			break
		}
		obs.Outs = append(obs.Outs, o)
	}
	if stream != nil {
		obs.Closes = stream.closes
	}
	return obs
}

func c17CoqNat(n int) string {
	if n < 1000 {
		return coqNat(n)
	}
	return coqNatBig(n)
}

func (c17) Coq(inAny any, obsAny any) string {
	in, obs := inAny.(c17In), obsAny.(c17Obs)
	steps := coqList(in.Steps, func(s c17Step) string {
		t := "None"
		switch {
		case s.T == 1:
			t = "(Some EOF)"
		case s.T >= 2:
			t = fmt.Sprintf("(Some (EScript %d))", s.T-2)
		}
		return coqPair(coqBytes(string(s.C)), t)
	})
	ops := in.Ops
	if len(obs.Outs) < len(ops) { // a panic ended the history: judge what was executed
		ops = ops[:len(obs.Outs)]
	}
	opsT := coqList(ops, func(o c17Op) string {
		switch o.K {
		case "has":
			return "OpHas"
		case "close":
			return "OpClose"
		default:
			return "OpRead " + c17CoqNat(o.N)
		}
	})
	outsT := coqList(obs.Outs, func(o c17Out) string {
		switch o.K {
		case "has":
			return "OHas " + coqBool(o.B)
		case "read":
			return "ORead " + coqBytes(string(o.D)) + " " + c17CoqErr(o.E)
		case "close":
			return "OClose " + c17CoqErr(o.E)
		case "nobody":
			return "ONoBody"
		default:
			return "OPanic"
		}
	})
	cerr := "None"
	if in.CErr >= 2 {
		cerr = fmt.Sprintf("(Some (EScript %d))", in.CErr-2)
	}
	return fmt.Sprintf("CHist %s %s %s %s %s %s %s %s", coqZ(in.CL), coqBool(in.Hdr != ""), coqBool(in.Nil), cerr,
		steps, opsT, outsT, c17CoqNat(obs.Closes))
}

func (c17) Classify(inAny any, obsAny any) []string { return nil }

func (c17) Category(inAny any, obsAny any) (string, bool) {
	in, obs := inAny.(c17In), obsAny.(c17Obs)
	probing := in.CL <= 0 && in.Hdr == ""
	length := "absent"
	switch {
	case in.CL > 0:
		length = "positive"
	case in.Hdr != "":
		length = "header"
	case in.CL == 0:
		length = "zero"
	}
	if in.Nil {
		return "nil-body/len=" + length, false
	}
	size, term := 0, "runs-out"
	for _, s := range in.Steps {
		size += len(s.C)
		if s.T != 0 {
			if s.T == 1 {
				term = "eof"
			} else {
				term = "error"
			}
			if s.C != "" {
				term = "data+" + term
			}
			break
		}
	}
	sz := "0"
	switch {
	case size > 4096:
		sz = ">buf"
	case size == 4096:
		sz = "=buf"
	case size > 0:
		sz = "<buf"
	}
	probes, readsAfter, closes, readAfterClose, probeAfterRead := 0, 0, 0, false, false
	seenRead := false
	for i, op := range in.Ops {
		if i >= len(obs.Outs) {
			break
		}
		switch op.K {
		case "has":
			probes++
			if seenRead {
				probeAfterRead = true
			}
		case "read":
			seenRead = true
			if probes > 0 {
				readsAfter++
			}
			if closes > 0 {
				readAfterClose = true
			}
		case "close":
			closes++
		}
	}
	pc := probes
	if pc > 3 {
		pc = 3
	}
	hist := fmt.Sprintf("probes=%d", pc)
	if probeAfterRead {
		hist += "+after-read"
	}
	switch {
	case closes > 1:
		hist += "/close=2+"
	case closes == 1:
		hist += "/close=1"
	}
	if readAfterClose {
		hist += "/read-after-close"
	}
	shape := in.Shape
	if shape == "" {
		shape = "corpus"
	}
	_ = hist
	hs := fmt.Sprintf("probes=%d", pc)
	if closes > 0 {
		hs += "+close"
	}
	if readAfterClose {
		hs += "+read-after"
	}
	if !probing {
		shape, term = "-", "-" // the stream is not looked at
	}
	cat := fmt.Sprintf("len=%s/body%s/%s/term=%s/%s", length, sz, shape, term, hs)
	return cat, probing && probes > 0 && (readsAfter > 0 || closes > 0)
}
