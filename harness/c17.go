//go:build verif && (c17 || allprops)

package main

import (
	"bufio"
	"bytes"
	"encoding/json"
	"errors"
	"fmt"
	"io"
	"math/rand"
	"net/http"
	"os"
	"os/exec"
	"runtime/debug"
	"strings"
	"sync"
	"time"

	"github.com/go-openapi/runtime"
)

// C17 — probing a request for a body. One case = one request (Content-Length settings, nil or
// scripted body) and one history of HasBody / Read k / Close calls made through the public API
// (runtime.HasBody(req), req.Body.Read, req.Body.Close). The scripted stream implements exactly
// StreamScripts.sread; the outputs of every call and the stream's Close counter are compared
// step by step with the model (Peek.run) and judged by PeekSpec.history_ok.
//
// Pair cases (field B set): TWO requests, each with its own settings and scripted stream, and one history whose
// calls carry the index of the request they are made on, interleaved in any order - in particular calls through a
// retained A.Body (late Read, second Close) after request B has been probed. Compared with Peek.run2 and judged by
// PeekSpec.pair_ok: each request observes exactly what it observes alone.
//
// The calls are executed in a worker process (the same binary, VERIF_C17_WORKER=1) that reports every output as it is
// made: a change that lets the library recurse without end (fatal stack overflow, not a recoverable panic) or hang
// kills only the worker; the call under way is then reported as a panic of that history, and a new worker is started.

type c17Step struct {
	C Bs  `json:"c"`
	T int `json:"t"` // 0 no terminal, 1 io.EOF, n>=2 scripted error number n-2, n<0 a sentinel of the standard library (c17Sentinels[-n-1])
}

type c17Op struct {
	K string `json:"k"` // has | read | close
	N int    `json:"n,omitempty"`
	R int    `json:"r,omitempty"` // pair cases: 0 the call is made on request A, 1 on request B
}

// c17Req is the second request of a pair case.
type c17Req struct {
	CL    int64     `json:"cl"`
	Hdr   Bs        `json:"hdr"`
	Nil   bool      `json:"nil,omitempty"`
	CErr  int       `json:"cerr,omitempty"`
	Steps []c17Step `json:"steps"`
	c17Meta
}

// c17Meta: what else a request says about itself. None of it enters the answer (that depends on the declared length and
// on the readable bytes only), so the model does not take it as an input: a dependence on it shows as a difference.
type c17Meta struct {
	TE     []string `json:"te,omitempty"`     // r.TransferEncoding as net/http's server fills it in (nil: not set)
	TEHdr  bool     `json:"te_hdr,omitempty"` // a hand-made request: the Transfer-Encoding header is set as well
	Method string   `json:"method,omitempty"` // "" = POST
	// Body: what kind of value r.Body is. "" = the scripted stream of the harness; otherwise a value of the standard library,
	// as net/http and its callers install them: "nobody" = the http.NoBody sentinel itself (an absent or detached body),
	// "bytes" / "strings" = io.NopCloser over a bytes.Reader / strings.Reader holding the bytes of the script (what
	// http.NewRequest and middleware that re-installs a consumed body use). To the model these are ordinary streams
	// (c17StdSteps); their Close calls cannot be counted. Ignored for a nil body and in pair cases.
	Body string `json:"body,omitempty"`
}

// c17StdSteps: the script a standard-library body stands for: http.NoBody = the script that has run out (every Read
// returns 0, io.EOF); a bytes.Reader / strings.Reader = all the bytes of the script as one chunk (a shorter destination
// gets the first bytes, the rest stays) and then a separate io.EOF.
func c17StdSteps(kind string, steps []c17Step) []c17Step {
	switch kind {
	case "":
		return steps
	case "nobody":
		return nil
	}
	var d []byte
	for _, st := range steps {
		d = append(d, st.C...)
		if st.T != 0 {
			break
		}
	}
	if len(d) == 0 {
		return []c17Step{{T: 1}}
	}
	return []c17Step{{C: Bs(d)}, {T: 1}}
}

// c17Std: the request of a single-request case carries a standard-library body.
func c17Std(in c17In) bool { return in.Body != "" && !in.Nil && in.B == nil }

type c17In struct {
	CL    int64     `json:"cl"`
	Hdr   Bs        `json:"hdr"`            // Content-Length header value ("" = absent)
	Nil   bool      `json:"nil,omitempty"`  // r.Body == nil
	CErr  int       `json:"cerr,omitempty"` // 0: stream Close returns nil, n>=2: scripted error n-2
	Steps []c17Step `json:"steps"`
	Ops   []c17Op   `json:"ops"`
	Shape string    `json:"shape,omitempty"` // how the generator chunked the body (for the report only)
	B     *c17Req   `json:"b,omitempty"`     // pair cases: the second request
	c17Meta
}

type c17Out struct {
	K string `json:"k"` // has | read | close | nobody | panic
	B bool   `json:"b,omitempty"`
	D Bs     `json:"d,omitempty"`
	E string `json:"e,omitempty"` // error class, "" = nil
	P string `json:"p,omitempty"` // panic text
}

type c17Obs struct {
	Outs    []c17Out `json:"outs"`
	Closes  int      `json:"closes"`
	ClosesB int      `json:"closes_b,omitempty"`
}

type c17Err struct{ n int }

func (e *c17Err) Error() string { return fmt.Sprintf("scripted error %d", e.n) }

// c17Sentinels: terminal conditions real streams end with (T = -1-index): net/http's chunked reader returns
// io.ErrUnexpectedEOF for a truncated upload, a pipe io.ErrClosedPipe, a reader that gives up io.ErrNoProgress; wrapped
// values are what a decorating reader makes of them (errors.Is matches, == does not). The original terminal condition
// is THAT value, whatever an idiom in between usually takes it to mean.
var c17Sentinels = []error{
	io.ErrUnexpectedEOF,
	io.ErrNoProgress,
	io.ErrClosedPipe,
	io.ErrShortBuffer,
	fmt.Errorf("decorated: %w", io.EOF),
	fmt.Errorf("decorated: %w", io.ErrUnexpectedEOF),
}

func c17Term(t int) error {
	switch {
	case t < 0:
		return c17Sentinels[(-t-1)%len(c17Sentinels)]
	case t == 0:
		return nil
	case t == 1:
		return io.EOF
	default:
		return &c17Err{t - 2}
	}
}

// c17Stream is StreamScripts.sread as an io.ReadCloser.
type c17Stream struct {
	steps  []c17Step
	dead   error
	closes int
	cerr   error
}

func (s *c17Stream) Read(p []byte) (int, error) {
	if s.dead != nil {
		return 0, s.dead
	}
	if len(s.steps) == 0 {
		s.dead = io.EOF
		return 0, io.EOF
	}
	st := &s.steps[0]
	if len(st.C) <= len(p) {
		n := copy(p, st.C)
		t := c17Term(st.T)
		s.steps = s.steps[1:]
		if t != nil {
			s.dead = t
		}
		return n, t
	}
	n := copy(p, st.C[:len(p)])
	st.C = st.C[n:]
	return n, nil
}

func (s *c17Stream) Close() error { s.closes++; return s.cerr }

func c17ErrClass(err error) string {
	var se *c17Err
	switch {
	case err == nil:
		return ""
	case err == io.EOF:
		return "EOF"
	case errors.As(err, &se):
		return fmt.Sprintf("S%d", se.n)
	case err == io.ErrNoProgress:
		return "NoProgress"
	case err == io.ErrUnexpectedEOF:
		return "UnexpectedEOF"
	case err == io.ErrShortWrite:
		return "ShortWrite"
	case err.Error() == "reader already closed":
		return "Closed"
	default:
		return "O:" + err.Error()
	}
}

func c17CoqErr(class string) string {
	switch {
	case class == "":
		return "None"
	case class == "EOF":
		return "(Some EOF)"
	case class[0] == 'S' && class != "ShortWrite":
		return "(Some (EScript " + class[1:] + "))"
	case class == "NoProgress":
		return "(Some ENoProgress)"
	case class == "UnexpectedEOF":
		return "(Some EUnexpectedEOF)"
	case class == "ShortWrite":
		return "(Some EShortWrite)"
	case class == "Closed":
		return "(Some EClosed)"
	default:
		return "(Some (EOther 0))"
	}
}

type c17 struct{}

func init() {
	if os.Getenv("VERIF_C17_WORKER") == "1" {
		c17WorkerMain()
		os.Exit(0)
	}
	register(c17{})
}

func (c17) ID() string        { return "C17" }
func (c17) CoqModule() string { return "Check_C17" }
func (c17) Rule() string {
	return "requests: ContentLength in {-1,0,positive} x Content-Length header absent/0/other x nil or scripted body or (1 generated request in 8, 100 enumerated) a standard-library body: the http.NoBody sentinel / io.NopCloser over a bytes.Reader / strings.Reader, half of them with a positive declared length x TransferEncoding not set / chunked / identity / gzip,chunked / empty (about half of the generated requests, also as a header) x method; bodies 0..~10 KB " +
		"(sizes around the 4096-byte buffer), chunked 1-byte / random / buffer-boundary / single, with zero-length reads (runs up to 101), " +
		"terminal EOF separate, data+EOF, none, or a scripted error after any byte (data+error or separate); histories of 1..14 calls of " +
		"HasBody, Read k (k in 0,1,small,4095,4096,4097,large) and Close in any order incl. probes after reads, reads after close, double close; " +
		"pair cases (about 1 in 5 generated, 200 enumerated): two requests with their own scripted streams and one history of 4..18 calls tagged with the request they are made on, " +
		"interleaved at random or in the order probe A / close A / probe B / late Read or Close through the retained A.Body / drain B. " +
		"Non-trivial: a non-nil body, at least one probing HasBody (no positive length, no header) and at least one Read or Close after it (pair cases: on either request)."
}

func (c17) Decode(raw json.RawMessage) (any, error) {
	var in c17In
	err := json.Unmarshal(raw, &in)
	return in, err
}

func (c17) Enumerate(tier string) []any {
	var out []any
	body := "hello, world"
	ops := func(s string) []c17Op {
		var o []c17Op
		for _, f := range strings.Fields(s) {
			switch f[0] {
			case 'h':
				o = append(o, c17Op{K: "has"})
			case 'c':
				o = append(o, c17Op{K: "close"})
			default:
				var n int
				fmt.Sscanf(f[1:], "%d", &n)
				o = append(o, c17Op{K: "read", N: n})
			}
		}
		return o
	}
	hist := []string{"h r5 r100 r1 c", "h h r3 h r100 r1 c c r1 h r1", "r4 h r100 r1", "h c r1 r0 h r1 c", "c h r1 c", "h r0 r0 r1 r4096 r1", "h", "h h h", "h r5000 r5000", "h r5000 r5000 c r1 r0 r5000 h r1"}
	// error / EOF at every offset of a short body, every terminal placement, 1-byte chunks and whole
	for off := 0; off <= len(body); off++ {
		for _, term := range []int{1, 2, -1} {
			for _, together := range []bool{false, true} {
				for _, one := range []bool{false, true} {
					var steps []c17Step
					if one {
						for i := 0; i < off; i++ {
							steps = append(steps, c17Step{C: Bs(body[i : i+1])})
						}
					} else if off > 0 {
						steps = append(steps, c17Step{C: Bs(body[:off])})
					}
					if together && len(steps) > 0 {
						steps[len(steps)-1].T = term
					} else {
						steps = append(steps, c17Step{T: term})
					}
					for hi, h := range hist {
						if tier == "quick" && (off*7+hi)%3 != 0 {
							continue
						}
						out = append(out, c17In{CL: -1, Steps: steps, Ops: ops(h), Shape: "enum"})
					}
				}
			}
		}
	}
	// the empty-read guard: 99, 100, 101 zero-length reads before the first byte
	for _, z := range []int{0, 1, 99, 100, 101, 199, 200} {
		var steps []c17Step
		for i := 0; i < z; i++ {
			steps = append(steps, c17Step{})
		}
		steps = append(steps, c17Step{C: "x"}, c17Step{T: 1})
		out = append(out, c17In{CL: 0, Steps: steps, Ops: ops("h h r1 r1 r1"), Shape: "stall"})
		out = append(out, c17In{CL: 0, Steps: steps, Ops: ops("r1 h r1 r1"), Shape: "stall"})
	}
	// two requests, interleaved calls: every pair of stream shapes x histories in which a body is used after the other
	// request has been probed (A.. calls on the first request, B.. on the second)
	pops := func(s string) []c17Op {
		var o []c17Op
		for _, f := range strings.Fields(s) {
			one := ops(f[1:])[0]
			if f[0] == 'B' {
				one.R = 1
			}
			o = append(o, one)
		}
		return o
	}
	shapes := func(b string) [][]c17Step {
		var bytewise []c17Step
		for i := 0; i < len(b); i++ {
			bytewise = append(bytewise, c17Step{C: Bs(b[i : i+1])})
		}
		return [][]c17Step{
			{{C: Bs(b)}, {T: 1}},
			append(bytewise, c17Step{T: 1}),
			{{C: Bs(b), T: 1}},
			{{T: 1}},
			{{C: Bs(b[:5])}, {C: Bs(b[5:]), T: 3}},
		}
	}
	phist := []string{
		"Ah Ac Bh Ar5 Ac Br100 Br1 Bc",
		"Ah Ar3 Ac Bh Br3 Ar3 Bc Ar1 Ac Br1",
		"Ah Bh Ac Bc Ar1 Br1 Ah Bh",
		"Bh Br2 Bc Ah Bc Ar4 Br4 Ar100 Ar1 Ac Ac",
		"Ah Bh Ar100 Br100 Ar1 Br1 Ac Bc",
		"Ah Ac Bh Bc Ar1 Br1 Ac Bc",
		"Ah Ac Bh Ah Br100 Ar1 Br1",
		"Ah Ah Ac Bh Bh Ar2 Br2 Ac Br100",
	}
	for ai, sa := range shapes("hello, world") {
		for bi, sb := range shapes("OTHER REQUEST") {
			for hi, h := range phist {
				out = append(out, c17In{CL: []int64{-1, 0}[(ai+hi)%2], Steps: sa, CErr: []int{0, 0, 2}[(ai+bi+hi)%3],
					B: &c17Req{CL: []int64{-1, 0}[(bi+hi/2)%2], Steps: sb}, Ops: pops(h), Shape: "pair-enum"})
			}
		}
	}
	// what else the request says about itself: TransferEncoding {nil, chunked, identity, gzip+chunked, empty} x method x
	// length settings x {empty body, body with bytes, failing before the first byte, nil body} x histories with repeated
	// probes. The answer depends on the declared length and the readable bytes only.
	metas := []c17Meta{{}, {TE: []string{"chunked"}}, {TE: []string{"chunked"}, TEHdr: true}, {TE: []string{"identity"}}, {TE: []string{"gzip", "chunked"}},
		{TE: []string{}}, {Method: "GET"}, {Method: "GET", TE: []string{"chunked"}}, {Method: "DELETE"}, {Method: "PUT", TE: []string{"chunked"}}}
	type lenSet struct {
		cl  int64
		hdr string
	}
	mbodies := [][]c17Step{{{T: 1}}, nil, {{C: "x", T: 1}}, {{C: "hello"}, {T: 1}}, {{T: 2}}, {{}, {T: 1}}}
	mn := 0
	for _, m := range metas {
		for _, ls := range []lenSet{{-1, ""}, {0, ""}, {0, "0"}, {5, "5"}, {-1, "5"}} {
			for _, steps := range mbodies {
				h := []string{"h h r4 r4 c", "h r0 h r100 r1 c r0", "r1 h h c"}[mn%3]
				out = append(out, c17In{CL: ls.cl, Hdr: Bs(ls.hdr), Steps: steps, Ops: ops(h), Shape: "meta", c17Meta: m})
				mn++
			}
			out = append(out, c17In{CL: ls.cl, Hdr: Bs(ls.hdr), Nil: true, Ops: ops("h h c r1"), Shape: "nil", c17Meta: m})
		}
	}
	// the body is a value of the standard library: the http.NoBody sentinel, or a NopCloser over a bytes / strings reader
	// (empty, one byte, some bytes) x every length setting (positive with and without the header, header only, zero,
	// none) x histories. A positive declared length answers true whatever the body is; otherwise the readable bytes decide.
	stdBodies := []struct {
		kind string
		data string
	}{{"nobody", ""}, {"bytes", ""}, {"bytes", "x"}, {"bytes", "hello, world"}, {"strings", ""}, {"strings", "hello"}}
	sn := 0
	for _, sb := range stdBodies {
		for _, ls := range []lenSet{{-1, ""}, {0, ""}, {0, "0"}, {5, "5"}, {5, ""}, {1, ""}, {-1, "5"}} {
			for _, h := range []string{"h", "h h r4 r100 r1 c r1", "r1 h r0 h c c", "h c h r1"} {
				if tier == "quick" && sb.kind != "nobody" && sn%2 == 1 {
					sn++
					continue
				}
				sn++
				out = append(out, c17In{CL: ls.cl, Hdr: Bs(ls.hdr), Steps: c17StdSteps(sb.kind, []c17Step{{C: Bs(sb.data)}}), Ops: ops(h), Shape: "std",
					c17Meta: c17Meta{Body: sb.kind}})
			}
		}
	}
	// nil body and the length fast paths
	for _, cl := range []int64{-1, 0, 7} {
		for _, hdr := range []string{"", "0", "7"} {
			for _, h := range []string{"h", "h h", "h c", "h r1 c", "h h c c r1", "h c h r1 c", "h r1"} {
				out = append(out, c17In{CL: cl, Hdr: Bs(hdr), Nil: true, Ops: ops(h), Shape: "nil"})
			}
			out = append(out, c17In{CL: cl, Hdr: Bs(hdr), Steps: []c17Step{{C: "abc", T: 1}}, Ops: ops("h r2 h r2 r2 c c"), Shape: "enum"})
			out = append(out, c17In{CL: cl, Hdr: Bs(hdr), Steps: []c17Step{{T: 1}}, Ops: ops("h r2 h c"), Shape: "enum"})
		}
	}
	return out
}

var c17Sizes = []int{0, 0, 1, 2, 3, 7, 16, 100, 511, 1000, 4095, 4096, 4097, 5000, 8191, 8192, 8193, 10000}
var c17Reads = []int{0, 1, 1, 2, 3, 5, 16, 100, 512, 4095, 4096, 4097, 5000, 9000, 20000}

func c17Body(r *rand.Rand, n int, salt int) []byte {
	b := make([]byte, n)
	switch r.Intn(3) {
	case 0: // position-revealing pattern: any reordering or duplication changes it
		for i := range b {
			b[i] = byte((i*7 + i/251 + salt) % 256)
		}
	default:
		r.Read(b)
	}
	return b
}

// c17GenRequest: settings and scripted stream of one request (salt varies the position pattern of the body).
func c17GenRequest(r *rand.Rand, tier string, salt int) c17In {
	in := c17In{}
	switch r.Intn(8) {
	case 0:
		in.CL = int64(1 + r.Intn(100))
	case 1, 2:
		in.CL = 0
	default:
		in.CL = -1
	}
	switch r.Intn(10) {
	case 0:
		in.Hdr = "0"
	case 1:
		in.Hdr = Bs(fmt.Sprint(r.Intn(50)))
	}
	if r.Intn(25) == 0 {
		in.Nil = true
	}
	if r.Intn(6) == 0 {
		in.CErr = 2 + r.Intn(3)
		if r.Intn(4) == 0 {
			in.CErr = -1 - r.Intn(len(c17Sentinels))
		}
	}
	// body
	size := c17Sizes[r.Intn(len(c17Sizes))]
	if r.Intn(3) == 0 {
		size = r.Intn(300)
	}
	if tier == "quick" && size > 5000 && r.Intn(3) != 0 {
		size = r.Intn(5000)
	}
	body := c17Body(r, size, salt)
	// terminal
	term := 1
	cut := len(body)
	switch r.Intn(6) {
	case 0: // scripted error after a prefix
		term = 2 + r.Intn(3)
		cut = r.Intn(len(body) + 1)
	case 1:
		term = 2 + r.Intn(3)
	case 2:
		term = 0 // the script just runs out (EOF)
	case 3: // a sentinel of the standard library, after a prefix or at the end
		term = -1 - r.Intn(len(c17Sentinels))
		if r.Intn(2) == 0 {
			term = -1 // io.ErrUnexpectedEOF: how a truncated chunked upload ends
		}
		if r.Intn(2) == 0 {
			cut = r.Intn(len(body) + 1)
		}
	}
	body = body[:cut]
	// chunking
	var steps []c17Step
	shape := []string{"one", "bytes", "random", "boundary", "small"}[r.Intn(5)]
	if shape == "bytes" && len(body) > 400 {
		shape = "random"
	}
	rest := body
	for len(rest) > 0 {
		var n int
		switch shape {
		case "one":
			n = len(rest)
		case "bytes":
			n = 1
		case "random":
			n = 1 + r.Intn(3000)
		case "boundary":
			n = []int{4095, 4096, 4097, 1, 8192, 4096}[r.Intn(6)]
		default:
			n = 1 + r.Intn(9)
			if len(rest) > 200 {
				n = len(rest) - 100 - r.Intn(50)
			}
		}
		if n > len(rest) {
			n = len(rest)
		}
		if r.Intn(5) == 0 { // zero-length reads in between
			z := 1 + r.Intn(3)
			if r.Intn(12) == 0 {
				z = []int{98, 99, 100, 101}[r.Intn(4)]
			}
			for j := 0; j < z; j++ {
				steps = append(steps, c17Step{})
			}
		}
		steps = append(steps, c17Step{C: Bs(rest[:n])})
		rest = rest[n:]
	}
	if term != 0 {
		if len(steps) > 0 && steps[len(steps)-1].C != "" && r.Intn(2) == 0 {
			steps[len(steps)-1].T = term // data together with the terminal
		} else {
			if r.Intn(6) == 0 {
				steps = append(steps, c17Step{})
			}
			steps = append(steps, c17Step{T: term})
		}
	}
	if r.Intn(10) == 0 { // steps after the terminal are never reached
		steps = append(steps, c17Step{C: "ghost"})
	}
	in.Steps, in.Shape = steps, shape
	in.c17Meta = c17GenMeta(r)
	// the body is a value of the standard library instead of the scripted stream (1 request in 8): mostly the http.NoBody
	// sentinel, with every length setting (half of them a positive declared length: what is declared decides, not the body)
	if !in.Nil && r.Intn(8) == 0 {
		in.Body = []string{"nobody", "nobody", "bytes", "strings"}[r.Intn(4)]
		in.Steps, in.CErr, in.Shape = c17StdSteps(in.Body, in.Steps), 0, "std"
		if r.Intn(2) == 0 {
			in.CL = int64(1 + r.Intn(100))
			if r.Intn(2) == 0 {
				in.Hdr = Bs(fmt.Sprint(in.CL))
			} else {
				in.Hdr = ""
			}
		}
	}
	return in
}

var c17TEs = [][]string{{"chunked"}, {"chunked"}, {"identity"}, {"gzip", "chunked"}, {"chunked", "gzip"}, {}, {"Chunked"}, {"deflate"}}

// c17GenMeta: about half of the requests say nothing more about themselves (as before); the others carry a
// TransferEncoding as a server-side request does (mostly chunked), some a method that usually has no body.
func c17GenMeta(r *rand.Rand) c17Meta {
	var m c17Meta
	if r.Intn(2) == 0 {
		m.TE = c17TEs[r.Intn(len(c17TEs))]
		m.TEHdr = r.Intn(4) == 0
	}
	if r.Intn(4) == 0 {
		m.Method = []string{"GET", "PUT", "PATCH", "DELETE", "HEAD", "OPTIONS"}[r.Intn(6)]
	}
	return m
}

func (c17) Gen(r *rand.Rand, tier string, i int) any {
	if i%5 == 4 {
		return c17GenPair(r, tier)
	}
	in := c17GenRequest(r, tier, 0)
	// history
	n := 1 + r.Intn(14)
	closeP := 8
	if r.Intn(3) == 0 {
		closeP = 3
	}
	for j := 0; j < n; j++ {
		switch x := r.Intn(closeP + 8); {
		case x < 3 || (j == 0 && x < 6):
			in.Ops = append(in.Ops, c17Op{K: "has"})
		case x < closeP+7:
			k := c17Reads[r.Intn(len(c17Reads))]
			if r.Intn(4) == 0 {
				k = 1 + r.Intn(40)
			}
			in.Ops = append(in.Ops, c17Op{K: "read", N: k})
		default:
			in.Ops = append(in.Ops, c17Op{K: "close"})
		}
	}
	if r.Intn(3) == 0 { // drain what is left, so that the terminal condition is observed
		for j := 0; j < 6; j++ {
			in.Ops = append(in.Ops, c17Op{K: "read", N: 20000})
		}
	}
	return in
}

func c17GenRead(r *rand.Rand) int {
	k := c17Reads[r.Intn(len(c17Reads))]
	if r.Intn(4) == 0 {
		k = 1 + r.Intn(40)
	}
	return k
}

// c17GenPair: two requests and an interleaved history. Half of the histories follow the order in which a recycled or shared
// wrapper would show: probe A, (read A), close A, probe B, then late calls through the retained A.Body mixed with reads of
// B; the other half interleave the calls at random.
func c17GenPair(r *rand.Rand, tier string) c17In {
	in := c17GenRequest(r, tier, 0)
	b := c17GenRequest(r, tier, 101)
	in.Body, b.Body = "", "" // pair cases use scripted streams only (the steps stay as they are)
	if r.Intn(4) != 0 { // mostly: both requests are probed for real
		in.CL, in.Hdr, in.Nil = []int64{-1, 0}[r.Intn(2)], "", false
		b.CL, b.Hdr, b.Nil = []int64{-1, 0}[r.Intn(2)], "", false
	}
	in.B = &c17Req{CL: b.CL, Hdr: b.Hdr, Nil: b.Nil, CErr: b.CErr, Steps: b.Steps, c17Meta: b.c17Meta}
	in.Shape = "pair:" + in.Shape + "+" + b.Shape
	op := func(k string, req int) c17Op {
		o := c17Op{K: k, R: req}
		if k == "read" {
			o.N = c17GenRead(r)
		}
		return o
	}
	if r.Intn(2) == 0 {
		first := r.Intn(2) // the request that is closed early
		second := 1 - first
		in.Ops = append(in.Ops, op("has", first))
		if r.Intn(2) == 0 {
			in.Ops = append(in.Ops, op("read", first))
		}
		if r.Intn(4) == 0 {
			in.Ops = append(in.Ops, op("has", second), op("close", first))
		} else {
			in.Ops = append(in.Ops, op("close", first), op("has", second))
		}
		for j, n := 0, 2+r.Intn(8); j < n; j++ {
			switch x := r.Intn(10); {
			case x < 3:
				in.Ops = append(in.Ops, op("read", first))
			case x < 5:
				in.Ops = append(in.Ops, op("close", first))
			case x < 8:
				in.Ops = append(in.Ops, op("read", second))
			case x < 9:
				in.Ops = append(in.Ops, op("has", []int{first, second}[r.Intn(2)]))
			default:
				in.Ops = append(in.Ops, op("close", second))
			}
		}
	} else {
		for j, n := 0, 4+r.Intn(12); j < n; j++ {
			req := r.Intn(2)
			switch x := r.Intn(10); {
			case x < 3 || j < 2:
				in.Ops = append(in.Ops, op("has", req))
			case x < 8:
				in.Ops = append(in.Ops, op("read", req))
			default:
				in.Ops = append(in.Ops, op("close", req))
			}
		}
	}
	if r.Intn(2) == 0 { // drain both, so that what is left of each stream and its terminal condition are observed
		for j := 0; j < 3; j++ {
			in.Ops = append(in.Ops, c17Op{K: "read", N: 20000, R: 1}, c17Op{K: "read", N: 20000, R: 0})
		}
	}
	return in
}

func (c17) Run(inAny any) any {
	in := inAny.(c17In)
	if os.Getenv("VERIF_C17_INPROC") == "1" {
		return c17RunLocal(in, nil)
	}
	obs, err := c17RunIsolated(in)
	if err != nil { // no worker could be started: run in this process
		return c17RunLocal(in, nil)
	}
	return obs
}

func c17NewRequest(cl int64, hdr Bs, isNil bool, cerr int, steps []c17Step, m c17Meta) (*http.Request, *c17Stream) {
	req := &http.Request{Method: "POST", Header: http.Header{}, ContentLength: cl}
	if m.Method != "" {
		req.Method = m.Method
	}
	if m.TE != nil {
		req.TransferEncoding = append([]string{}, m.TE...)
		if m.TEHdr && len(m.TE) > 0 {
			req.Header.Set("Transfer-Encoding", strings.Join(m.TE, ", "))
		}
	}
	if hdr != "" {
		req.Header.Set("Content-Length", string(hdr))
	}
	if isNil {
		return req, nil
	}
	if m.Body != "" {
		var data []byte
		for _, st := range c17StdSteps(m.Body, steps) {
			data = append(data, st.C...)
		}
		switch m.Body {
		case "nobody":
			req.Body = http.NoBody
		case "strings":
			req.Body = io.NopCloser(strings.NewReader(string(data)))
		default:
			req.Body = io.NopCloser(bytes.NewReader(data))
		}
		return req, nil
	}
	cp := make([]c17Step, len(steps))
	copy(cp, steps)
	stream := &c17Stream{steps: cp, cerr: c17Term(cerr)}
	req.Body = stream
	return req, stream
}

// c17RunLocal executes the history in this process; emit (when not nil) is told every output as soon as it exists.
func c17RunLocal(in c17In, emit func(c17Out)) c17Obs {
	obs := c17Obs{}
	reqs := make([]*http.Request, 1, 2)
	streams := make([]*c17Stream, 1, 2)
	if in.B != nil { // pair cases: scripted streams only (the Close calls of both are counted)
		in.c17Meta.Body = ""
	}
	reqs[0], streams[0] = c17NewRequest(in.CL, in.Hdr, in.Nil, in.CErr, in.Steps, in.c17Meta)
	if in.B != nil {
		mb := in.B.c17Meta
		mb.Body = ""
		rb, sb := c17NewRequest(in.B.CL, in.B.Hdr, in.B.Nil, in.B.CErr, in.B.Steps, mb)
		reqs, streams = append(reqs, rb), append(streams, sb)
	}
	for _, op := range in.Ops {
		var o c17Out
		req := reqs[0]
		if op.R == 1 && len(reqs) > 1 {
			req = reqs[1]
		}
		panicked, msg := recoverTo(func() {
			switch op.K {
			case "has":
				o = c17Out{K: "has", B: runtime.HasBody(req)}
			case "read":
				if req.Body == nil {
					o = c17Out{K: "nobody"}
					return
				}
				buf := make([]byte, op.N)
				for i := range buf {
					buf[i] = 0xAA
				}
				n, err := req.Body.Read(buf)
				if n < 0 || n > len(buf) {
					o = c17Out{K: "read", E: fmt.Sprintf("O:bad count %d", n)}
					return
				}
				o = c17Out{K: "read", D: Bs(buf[:n]), E: c17ErrClass(err)}
			case "close":
				if req.Body == nil {
					o = c17Out{K: "nobody"}
					return
				}
				o = c17Out{K: "close", E: c17ErrClass(req.Body.Close())}
			}
		})
		if panicked {
			o = c17Out{K: "panic", P: msg}
		}
		obs.Outs = append(obs.Outs, o)
		if emit != nil {
			emit(o)
		}
		if panicked {
			break
		}
	}
	if streams[0] != nil {
		obs.Closes = streams[0].closes
	}
	if len(streams) > 1 && streams[1] != nil {
		obs.ClosesB = streams[1].closes
	}
	return obs
}

// ---------- the worker process ----------

// c17WorkerMain: one input per line on stdin; per call one line "o <output>", then "d <observation>" on stdout.
func c17WorkerMain() {
	debug.SetMaxStack(8 << 20) // an endless recursion ends quickly (the deepest legitimate nesting is one wrapper per probe)
	rd := bufio.NewReaderSize(os.Stdin, 1<<20)
	wr := bufio.NewWriterSize(os.Stdout, 1<<16)
	for {
		line, err := rd.ReadBytes('\n')
		if len(bytes.TrimSpace(line)) > 0 {
			var in c17In
			if e := json.Unmarshal(line, &in); e != nil {
				fmt.Fprintf(wr, "e %s\n", strings.ReplaceAll(e.Error(), "\n", " "))
				wr.Flush()
			} else {
				obs := c17RunLocal(in, func(o c17Out) {
					b, _ := json.Marshal(o)
					wr.WriteString("o ")
					wr.Write(b)
					wr.WriteByte('\n')
					wr.Flush() // the parent must know how far the history got if the next call kills the process
				})
				obs.Outs = nil
				b, _ := json.Marshal(obs)
				wr.WriteString("d ")
				wr.Write(b)
				wr.WriteByte('\n')
				wr.Flush()
			}
		}
		if err != nil {
			return
		}
	}
}

type c17Tail struct {
	mu  sync.Mutex
	buf []byte
}

func (t *c17Tail) Write(p []byte) (int, error) {
	t.mu.Lock()
	if room := 600 - len(t.buf); room > 0 { // the head of the report says what happened
		if len(p) < room {
			room = len(p)
		}
		t.buf = append(t.buf, p[:room]...)
	}
	t.mu.Unlock()
	return len(p), nil
}

func (t *c17Tail) String() string {
	t.mu.Lock()
	defer t.mu.Unlock()
	return strings.Join(strings.Fields(string(t.buf)), " ")
}

type c17Worker struct {
	cmd    *exec.Cmd
	stdin  io.WriteCloser
	lines  chan string
	stderr *c17Tail
}

var c17TheWorker *c17Worker

const c17CallTimeout = 30 * time.Second

func c17StartWorker() (*c17Worker, error) {
	exe, err := os.Executable()
	if err != nil {
		return nil, err
	}
	cmd := exec.Command(exe)
	cmd.Env = append(os.Environ(), "VERIF_C17_WORKER=1")
	w := &c17Worker{cmd: cmd, lines: make(chan string, 64), stderr: &c17Tail{}}
	cmd.Stderr = w.stderr
	if w.stdin, err = cmd.StdinPipe(); err != nil {
		return nil, err
	}
	out, err := cmd.StdoutPipe()
	if err != nil {
		return nil, err
	}
	if err := cmd.Start(); err != nil {
		return nil, err
	}
	go func() {
		rd := bufio.NewReaderSize(out, 1<<20)
		for {
			line, err := rd.ReadString('\n')
			if line != "" {
				w.lines <- strings.TrimRight(line, "\n")
			}
			if err != nil {
				close(w.lines)
				return
			}
		}
	}()
	return w, nil
}

func (w *c17Worker) kill() {
	_ = w.stdin.Close()
	_ = w.cmd.Process.Kill()
	_ = w.cmd.Wait()
}

// c17RunIsolated runs the history in the worker process. An error means that no worker could be started.
func c17RunIsolated(in c17In) (c17Obs, error) {
	if c17TheWorker == nil {
		w, err := c17StartWorker()
		if err != nil {
			return c17Obs{}, err
		}
		c17TheWorker = w
	}
	w := c17TheWorker
	line, err := json.Marshal(in)
	if err != nil {
		return c17Obs{}, err
	}
	var obs c17Obs
	died := func(why string) (c17Obs, error) {
		w.kill()
		c17TheWorker = nil
		msg := why
		if t := w.stderr.String(); t != "" {
			msg += ": " + t
		}
		obs.Outs = append(obs.Outs, c17Out{K: "panic", P: msg})
		return obs, nil
	}
	if _, err := w.stdin.Write(append(line, '\n')); err != nil {
		return died("the worker process does not accept the case")
	}
	timer := time.NewTimer(c17CallTimeout)
	defer timer.Stop()
	for {
		select {
		case l, ok := <-w.lines:
			switch {
			case !ok:
				return died("the process died during the call (not a recoverable panic)")
			case strings.HasPrefix(l, "o "):
				var o c17Out
				if err := json.Unmarshal([]byte(l[2:]), &o); err != nil {
					return died("unreadable output of the worker process")
				}
				obs.Outs = append(obs.Outs, o)
			case strings.HasPrefix(l, "d "):
				var fin c17Obs
				if err := json.Unmarshal([]byte(l[2:]), &fin); err != nil {
					return died("unreadable output of the worker process")
				}
				obs.Closes, obs.ClosesB = fin.Closes, fin.ClosesB
				return obs, nil
			default:
				return died("unexpected output of the worker process: " + l)
			}
		case <-timer.C:
			return died("the call did not return within " + c17CallTimeout.String())
		}
	}
}

func c17CoqNat(n int) string {
	if n < 1000 {
		return coqNat(n)
	}
	return coqNatBig(n)
}

func (c17) Coq(inAny any, obsAny any) string {
	in, obs := inAny.(c17In), obsAny.(c17Obs)
	stepsOf := func(steps []c17Step) string {
		return coqList(steps, func(s c17Step) string {
			t := c17CoqErr(c17ErrClass(c17Term(s.T)))
			return coqPair(coqBytes(string(s.C)), t)
		})
	}
	steps := stepsOf(in.Steps)
	ops := in.Ops
	if len(obs.Outs) < len(ops) { // a panic ended the history: judge what was executed
		ops = ops[:len(obs.Outs)]
	}
	opT := func(o c17Op) string {
		switch o.K {
		case "has":
			return "OpHas"
		case "close":
			return "OpClose"
		default:
			return "OpRead " + c17CoqNat(o.N)
		}
	}
	opsT := coqList(ops, opT)
	outsT := coqList(obs.Outs, func(o c17Out) string {
		switch o.K {
		case "has":
			return "OHas " + coqBool(o.B)
		case "read":
			return "ORead " + coqBytes(string(o.D)) + " " + c17CoqErr(o.E)
		case "close":
			return "OClose " + c17CoqErr(o.E)
		case "nobody":
			return "ONoBody"
		default:
			return "OPanic"
		}
	})
	cerrOf := func(n int) string {
		if n >= 2 || n < 0 {
			return c17CoqErr(c17ErrClass(c17Term(n)))
		}
		return "None"
	}
	cerr := cerrOf(in.CErr)
	if in.B != nil {
		ops2 := coqList(ops, func(o c17Op) string { return "(" + coqBool(o.R == 1) + ", " + opT(o) + ")" })
		return fmt.Sprintf("CPair (mkCfg %s %s %s %s) %s (mkCfg %s %s %s %s) %s %s %s %s %s",
			coqZ(in.CL), coqBool(in.Hdr != ""), coqBool(in.Nil), cerr, steps,
			coqZ(in.B.CL), coqBool(in.B.Hdr != ""), coqBool(in.B.Nil), cerrOf(in.B.CErr), stepsOf(in.B.Steps),
			ops2, outsT, c17CoqNat(obs.Closes), c17CoqNat(obs.ClosesB))
	}
	if c17Std(in) { // a standard-library body: the script it stands for; its Close returns nil and cannot be counted
		return fmt.Sprintf("CHistU %s %s %s %s %s %s", coqZ(in.CL), coqBool(in.Hdr != ""), coqBool(in.Nil),
			stepsOf(c17StdSteps(in.Body, in.Steps)), opsT, outsT)
	}
	return fmt.Sprintf("CHist %s %s %s %s %s %s %s %s", coqZ(in.CL), coqBool(in.Hdr != ""), coqBool(in.Nil), cerr,
		steps, opsT, outsT, c17CoqNat(obs.Closes))
}

func (c17) Classify(inAny any, obsAny any) []string { return nil }

func (c17) Category(inAny any, obsAny any) (string, bool) {
	in, obs := inAny.(c17In), obsAny.(c17Obs)
	if in.B != nil {
		return c17PairCategory(in, obs)
	}
	probing := in.CL <= 0 && in.Hdr == ""
	length := "absent"
	switch {
	case in.CL > 0:
		length = "positive"
	case in.Hdr != "":
		length = "header"
	case in.CL == 0:
		length = "zero"
	}
	if in.Nil {
		return "nil-body/len=" + length + c17MetaLabel(in.c17Meta), false
	}
	size, term := 0, "runs-out"
	for _, s := range in.Steps {
		size += len(s.C)
		if s.T != 0 {
			if s.T == 1 {
				term = "eof"
			} else if s.T < 0 {
				term = "io-error"
			} else {
				term = "error"
			}
			if s.C != "" {
				term = "data+" + term
			}
			break
		}
	}
	sz := "0"
	switch {
	case size > 4096:
		sz = ">buf"
	case size == 4096:
		sz = "=buf"
	case size > 0:
		sz = "<buf"
	}
	probes, readsAfter, closes, readAfterClose, probeAfterRead := 0, 0, 0, false, false
	seenRead := false
	for i, op := range in.Ops {
		if i >= len(obs.Outs) {
			break
		}
		switch op.K {
		case "has":
			probes++
			if seenRead {
				probeAfterRead = true
			}
		case "read":
			seenRead = true
			if probes > 0 {
				readsAfter++
			}
			if closes > 0 {
				readAfterClose = true
			}
		case "close":
			closes++
		}
	}
	pc := probes
	if pc > 3 {
		pc = 3
	}
	hist := fmt.Sprintf("probes=%d", pc)
	if probeAfterRead {
		hist += "+after-read"
	}
	switch {
	case closes > 1:
		hist += "/close=2+"
	case closes == 1:
		hist += "/close=1"
	}
	if readAfterClose {
		hist += "/read-after-close"
	}
	shape := in.Shape
	if shape == "" {
		shape = "corpus"
	}
	_ = hist
	hs := fmt.Sprintf("probes=%d", pc)
	if closes > 0 {
		hs += "+close"
	}
	if readAfterClose {
		hs += "+read-after"
	}
	if !probing {
		shape, term = "-", "-" // the stream is not looked at
	}
	cat := fmt.Sprintf("len=%s/body%s/%s/term=%s/%s", length, sz, shape, term, hs) + c17MetaLabel(in.c17Meta)
	return cat, probing && probes > 0 && (readsAfter > 0 || closes > 0)
}

// c17PairCategory: which of the cross-request situations the history contains.
func c17MetaLabel(m c17Meta) string {
	l := ""
	switch {
	case m.TE == nil:
	case len(m.TE) > 0 && m.TE[0] == "chunked":
		l += "/te=chunked"
	case len(m.TE) > 0 && strings.EqualFold(m.TE[len(m.TE)-1], "chunked"):
		l += "/te=..chunked"
	default:
		l += "/te=other"
	}
	switch m.Method {
	case "", "POST", "PUT", "PATCH":
	default:
		l += "/bodyless-method"
	}
	switch m.Body {
	case "":
	case "nobody":
		l += "/body=http.NoBody"
	default:
		l += "/body=std-reader"
	}
	return l
}

func c17PairCategory(in c17In, obs c17Obs) (string, bool) {
	probingOf := func(cl int64, hdr Bs, isNil bool) bool { return cl <= 0 && hdr == "" && !isNil }
	probing := []bool{probingOf(in.CL, in.Hdr, in.Nil), probingOf(in.B.CL, in.B.Hdr, in.B.Nil)}
	var probed, closed [2]bool
	late, lateKind, nontrivial := false, "", false
	for i, op := range in.Ops {
		if i >= len(obs.Outs) {
			break
		}
		r := op.R & 1
		other := 1 - r
		switch op.K {
		case "has":
			if probing[r] {
				probed[r] = true
			}
		case "read", "close":
			if probed[r] {
				nontrivial = true
			}
			// a call through a body that was closed before the other request was probed
			if closed[r] && probed[other] && !late {
				late, lateKind = true, op.K
			}
			if op.K == "close" && probed[r] {
				closed[r] = true
			}
		}
	}
	p := 0
	for _, b := range probing {
		if b {
			p++
		}
	}
	cat := fmt.Sprintf("pair/probing-requests=%d/", p)
	if late {
		cat += "late-" + lateKind + "-through-closed-body-after-other-probe"
	} else {
		cat += "no-late-call"
	}
	if len(obs.Outs) > 0 && obs.Outs[len(obs.Outs)-1].K == "panic" {
		cat += "/panic"
	}
	return cat, nontrivial
}
