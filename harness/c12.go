//go:build verif && (c12 || allprops)

package main

import (
	"context"
	"encoding/json"
	"errors"
	"fmt"
	"io"
	"math/rand"
	"net"
	"net/http"
	"net/http/httptest"
	"net/url"
	"os"
	"runtime"
	"strconv"
	"strings"
	"sync"
	"sync/atomic"
	"time"

	rt "github.com/go-openapi/runtime"
	"github.com/go-openapi/runtime/client"
	"github.com/go-openapi/strfmt"
)

// C12 — client calls terminate, release what they hold, surface faults. Cases:
//   drain     the real drainingReadCloser (obtained through KeepAliveTransport) over a scripted body:
//             Reads of the given sizes, then Close; per-Read results, Close count, bytes left unread
//   call      one Runtime.Submit of a multipart request with fault-injecting upload sources, auth writer,
//             path pattern and RoundTripper; afterwards: Close counts of every source, goroutines of the
//             call still alive (polled up to 2 s), response body Close count and unread bytes, result
//   deadline  the deadline the transport sees, against the caller's deadline and the request timeout
// Only logical facts are asserted; the one time bound (stalled transport) has 2 s of slack.

type c12File struct {
	Declared bool   `json:"declared"`
	SniffOK  bool   `json:"sniff_ok"`
	Chunks   []bool `json:"chunks"` // each source Read during the copy: does it succeed?
	// the error VALUE the Read marked false reports (c12ErrValues: 0 a custom error, 1 io.ErrUnexpectedEOF, 2 io.EOF - the
	// file simply ends there, early -, 3 io.ErrClosedPipe, 4 context.Canceled, 5 an error wrapping io.EOF, 6 an error wrapping
	// io.ErrUnexpectedEOF, 7 os.ErrDeadlineExceeded, 8 io.ErrNoProgress); the source is sticky: every later Read reports it again
	Err int `json:"err,omitempty"`
	// that Read hands out some bytes together with the error (n > 0, err != nil)
	WithData bool `json:"with_data,omitempty"`
	// the sniffing window: bytes delivered (by a Read of their own) before the failing Read, when the failing Read is the sniff's
	SniffGot int `json:"sniff_got,omitempty"`
	// the source is NOT sticky: it reports the value once and io.EOF from then on (a source built on io.ReadFull whose own
	// input ends early does that with io.ErrUnexpectedEOF)
	Once bool `json:"once,omitempty"`
}

// one exchange of a reuse history: the response body has Size bytes; the response reader reads it to its end (ReadAll)
// or takes Take bytes of it and returns
type c12Exch struct {
	Size    int  `json:"size"`
	ReadAll bool `json:"read_all,omitempty"`
	Take    int  `json:"take,omitempty"`
}

type c12In struct {
	Kind string `json:"kind"`
	// drain
	Segs  []int `json:"segs,omitempty"` // segment i holds Segs[i]+1 bytes
	Fin   int   `json:"fin,omitempty"`  // 0 EOF, 1 EOF together with the last data, 2 an error
	Sizes []int `json:"sizes,omitempty"`
	Unit  int   `json:"unit,omitempty"` // Segs and Sizes count units of that many bytes (0: 1): segment i holds (Segs[i]+1)*Unit bytes, a Read has a buffer of Sizes[j]*Unit bytes
	// call
	NValues   int       `json:"nvalues,omitempty"`
	Files     []c12File `json:"files,omitempty"`
	ParamErr  bool      `json:"param_err,omitempty"`
	Auth      int       `json:"auth,omitempty"` // 0 none, 1 ok, 2 fails
	Asks      bool      `json:"asks,omitempty"` // the auth writer calls GetBody
	LateErr   bool      `json:"late_err,omitempty"`
	Fail      bool      `json:"fail,omitempty"`  // the transport fails (else it answers)
	Reads     int       `json:"reads"`           // request body reads before that: -1 to the end, 0 none, k>0 a little
	Resp      int       `json:"resp,omitempty"`  // 0 read by the reader, 1 no consumer for its type, 2 the reader fails
	KeepAlive bool      `json:"keepalive,omitempty"`
	Real      bool      `json:"real,omitempty"`  // real http.Transport against a port nobody listens on
	Stall     bool      `json:"stall,omitempty"` // the transport waits for the context to end, then fails
	TimeoutMs int64     `json:"timeout_ms,omitempty"`
	TimeoutNs int64     `json:"timeout_ns,omitempty"`  // added to TimeoutMs: the request timeout may be tiny, and negative
	HasTimeout bool     `json:"has_timeout,omitempty"` // SetTimeout is called even when the sum is 0 (else: only when it is not 0; the default is 30 s)
	CallParentMs int64  `json:"call_parent_ms,omitempty"` // call: deadline of the caller's context relative to the start (0: none, < 0: already passed)
	Debug     bool      `json:"debug,omitempty"`       // Runtime.Debug: request and response are dumped
	Binary    bool      `json:"binary,omitempty"`      // the response is application/octet-stream (a Debug dump leaves its body out)
	RespSize  int       `json:"resp_size,omitempty"`   // announced length of the response body (0: 3000; at least 100)
	RespFault int       `json:"resp_fault,omitempty"`  // the response body fails: 0 no, 1 reset (an error), 2 truncated (unexpected EOF), 3 stalls until the context ends
	RespFaultAt int     `json:"resp_fault_at,omitempty"` // after that many bytes
	RespFaultWithData bool `json:"resp_fault_with_data,omitempty"` // the failure is reported together with the last bytes
	// the http.Client in use (call and deadline cases): 0 the runtime's own, 1 one given to NewWithClient, 2 ClientOperation.Client;
	// ClientTimeoutMs is its Timeout (0: none; negative: none for net/http); it needs ClientKind 1 or 2
	ClientKind      int   `json:"client_kind,omitempty"`
	ClientTimeoutMs int64 `json:"client_timeout_ms,omitempty"`
	// reuse: sequential calls on ONE Runtime against a real loopback server (KeepAlive: connection reuse enabled; ClientKind 0/1)
	Calls   []c12Exch `json:"calls,omitempty"`
	Chunked bool      `json:"chunked,omitempty"` // the server announces no Content-Length and flushes in pieces
	// deadline
	ParentMs int64 `json:"parent_ms,omitempty"` // -1: the caller's context has no deadline
	RuntimeCtx bool `json:"runtime_ctx,omitempty"` // the caller's context is Runtime.Context, not ClientOperation.Context
	KeepDefault bool `json:"keep_default,omitempty"` // deadline: the parameters never call SetTimeout, the request keeps client.DefaultTimeout
	// call and deadline: the application has set the package variable client.DefaultTimeout to that many ms for the case
	// (0: left at 30 s); restored afterwards. A request whose parameters do not call SetTimeout is bound by it.
	DefaultMs int64 `json:"default_ms,omitempty"`
	// call: the schemes the Runtime was created with and the schemes the operation names (both empty: ["http"] for both, as
	// every older case). The client selects one (the runtime's before the operation's, https preferred) and hands it to the
	// transport in use whatever it is: ws and wss are legal in a swagger 2.0 document, and a caller may pass any string.
	// What the call holds has to be released whichever scheme was selected and whoever refuses it.
	RtSchemes []string `json:"rt_schemes,omitempty"`
	OpSchemes []string `json:"op_schemes,omitempty"`
}

// the scheme lists the case uses
func (in c12In) schemeLists() (rtS, opS []string) {
	if len(in.RtSchemes) == 0 && len(in.OpSchemes) == 0 {
		return []string{"http"}, []string{"http"}
	}
	return in.RtSchemes, in.OpSchemes
}

// the scheme the documented rule selects: the first of the runtime's list, else of the operation's, https when the list has it, else http
func (in c12In) scheme() string {
	sel := func(l []string) string {
		if len(l) == 0 {
			return ""
		}
		for _, s := range l {
			if s == "https" {
				return s
			}
		}
		return l[0]
	}
	rtS, opS := in.schemeLists()
	if v := sel(rtS); v != "" {
		return v
	}
	if v := sel(opS); v != "" {
		return v
	}
	return "http"
}

// net/http (the real http.Transport, and the transport inside httputil.DumpRequestOut) refuses every scheme but these two,
// before it reads anything of the request body; it closes the body
func (in c12In) netHTTPRefusesScheme() bool { s := in.scheme(); return s != "http" && s != "https" }

// the value of client.DefaultTimeout when the harness starts (30 s)
var c12OrigDefault = client.DefaultTimeout

// the default request timeout in force during the case
func (in c12In) defaultTimeout() time.Duration {
	if in.DefaultMs != 0 {
		return time.Duration(in.DefaultMs) * time.Millisecond
	}
	return c12OrigDefault
}

// deadline cases: the request timeout in force (SetTimeout is called with timeout() unless KeepDefault)
func (in c12In) deadlineTimeout() time.Duration {
	if in.KeepDefault {
		return in.defaultTimeout()
	}
	return in.timeout()
}

const c12ReaderNeeds = 100 // bytes the response reader of the harness reads

func (in c12In) timeout() time.Duration {
	return time.Duration(in.TimeoutMs)*time.Millisecond + time.Duration(in.TimeoutNs)
}
func (in c12In) setsTimeout() bool { return in.HasTimeout || in.timeout() != 0 }

// the request timeout in force: the one set, else the default of a new request
func (in c12In) effTimeout() time.Duration {
	if in.setsTimeout() {
		return in.timeout()
	}
	return in.defaultTimeout()
}
func (in c12In) unit() int {
	if in.Unit <= 1 {
		return 1
	}
	return in.Unit
}
func (in c12In) clientTimeout() time.Duration {
	if in.ClientKind == 0 {
		return 0
	}
	return time.Duration(in.ClientTimeoutMs) * time.Millisecond
}
func (in c12In) respSize() int {
	n := in.RespSize
	if n == 0 {
		n = 3000
	}
	if n < c12ReaderNeeds {
		n = c12ReaderNeeds
	}
	return n
}
func (in c12In) faultAt() int {
	k := in.RespFaultAt
	if k < 0 {
		k = 0
	}
	if k > in.respSize() {
		k = in.respSize()
	}
	return k
}

// timed: the exchange stalls until the context ends, so the effective deadline has to end the call
func (in c12In) timed() bool { return in.Stall || in.RespFault == 3 }

// how long a stalling stub waits at most: the effective deadline (not before the start) + the slack of the check + a little
func (in c12In) stallCap() time.Duration {
	var d time.Duration
	have := false
	if t := in.effTimeout(); t != 0 {
		d, have = t, true
	}
	if in.CallParentMs != 0 {
		if p := time.Duration(in.CallParentMs) * time.Millisecond; !have || p < d {
			d, have = p, true
		}
	}
	if !have || d < 0 {
		d = 0
	}
	return d + 2300*time.Millisecond
}

type c12Obs struct {
	Panicked bool   `json:"panicked,omitempty"`
	Panic    string `json:"panic,omitempty"`
	// drain
	Log    [][2]int `json:"log,omitempty"`
	Closes int      `json:"closes"`
	Left   int      `json:"left"`
	Ended  bool     `json:"ended"`
	// call
	OK            bool   `json:"ok"`
	Err           string `json:"err,omitempty"`
	FileCloses    []int  `json:"file_closes,omitempty"`
	GoroutineGone bool   `json:"goroutine_gone"`
	RespOpened    int    `json:"resp_opened"`
	RespCloses    int    `json:"resp_closes"`
	RespLeft      int    `json:"resp_left"`
	ReqBodyClosed bool   `json:"req_body_closed"`
	InTime        bool   `json:"in_time"`
	ElapsedMs     int64  `json:"-"`
	ElapsedNs     int64  `json:"-"`
	// reuse: per exchange what was observed of the body the transport handed out; the connections the server saw
	Exch  []c12ExchObs `json:"exch,omitempty"`
	Conns int          `json:"conns,omitempty"`
	// deadline (nanoseconds relative to the start of the call)
	HasDeadline bool  `json:"has_deadline"`
	DeadlineNs  int64 `json:"-"`
	DurationNs  int64 `json:"-"`
}

type c12ExchObs struct {
	Taken  int64  `json:"taken"`  // bytes taken off the connection through the body (by the reader and by Close)
	Ended  bool   `json:"ended"`  // a Read of the body reported io.EOF
	Closes int32  `json:"closes"` // Close calls on it
	OK     bool   `json:"ok"`     // Submit succeeded
	Err    string `json:"err,omitempty"`
}

type c12 struct{}

func init() { register(c12{}) }

func (c12) ID() string        { return "C12" }
func (c12) CoqModule() string { return "Check_C12" }
func (c12) Rule() string {
	return "drain: scripted bodies (segment lists, ending in EOF / EOF with the last data / an error; from a few bytes to 2 MiB, once 128 MiB, still unread at Close, given in units) x Read-size sequences incl. 0 and over-long; " +
		"call: multipart requests with 0-3 form values and 1-3 upload sources (declared or sniffed, a failing Read placed at the sniff or at any copy chunk) x " +
		"parameter error / auth writer none, ok, failing, asking for the body or not / URL error / transport failing after reading nothing, a little, everything / " +
		"transport answering after reading nothing, a little, everything / response read, no consumer, reader failing / connection reuse on, off / a real http.Transport with nobody listening / a stalled transport ended by the request timeout; " +
		"Runtime.Debug on/off (request and response dumped) / response body of a consumed, unknown or binary type, complete or failing (reset, truncated, stalled) at every offset; " +
		"timed calls (stalled transport or stalled response body) under negative, tiny and ordinary request timeouts and caller deadlines shorter, longer, alone, already passed; " +
		"the http.Client in use (the runtime's own, NewWithClient, ClientOperation.Client) without or with a Timeout of its own (shorter than the bound, far longer, negative); responses of 200 KiB to 2 MiB under connection reuse; " +
		"the error VALUE a failing source Read reports (a custom error, io.ErrUnexpectedEOF, io.EOF early = the file just ends, io.ErrClosedPipe, context.Canceled, errors wrapping io.EOF / io.ErrUnexpectedEOF, os.ErrDeadlineExceeded, io.ErrNoProgress; alone or with some bytes; sticky) at every failing position incl. inside the sniffing window; " +
		"reuse: histories of 1-5 sequential calls on ONE Runtime against a real loopback server through a real http.Transport (connection reuse enabled or not, the runtime's own client or NewWithClient, Content-Length or chunked, bodies of 10 bytes to 5 MiB of which the reader takes nothing, a few bytes, half, or all): bytes taken off the connection, end seen, Close count per body, connections accepted by the server; " +
		"a stub response body without a scripted fault refuses Reads once the context of the exchange has ended, as a net/http body does; " +
		"the scheme selected for a call (lists of the runtime and of the operation: https, http+https, ws, wss, mixed, other spellings, strings a caller may pass) x a stub transport of the caller / the real http.Transport / the Debug dump, which net/http refuses for everything but http and https; " +
		"deadline: caller deadline absent, on the operation or on the runtime x timeout 0, negative, tiny, ordinary x the client's own Timeout. Non-trivial: every drain case with at least one segment, every call case, every deadline case."
}

func (c12) Decode(raw json.RawMessage) (any, error) {
	var in c12In
	err := json.Unmarshal(raw, &in)
	if in.Kind == "reuse" {
		in = c12NormReuse(in)
	}
	return in, err
}

// ---------- drain ----------

var errC12Body = errors.New("c12: body failed")

type c12Body struct {
	segs     []int
	fin      int
	finished bool
	closes   int
}

func (b *c12Body) Read(p []byte) (int, error) {
	if len(b.segs) == 0 {
		b.finished = true
		if b.fin == 2 {
			return 0, errC12Body
		}
		return 0, io.EOF
	}
	if len(p) == 0 {
		return 0, nil
	}
	s := b.segs[0]
	if len(p) < s+1 {
		b.segs[0] = s - len(p)
		return len(p), nil
	}
	b.segs = b.segs[1:]
	if len(b.segs) == 0 && b.fin == 1 {
		b.finished = true
		return s + 1, io.EOF
	}
	return s + 1, nil
}
func (b *c12Body) Close() error { b.closes++; return nil }
func (b *c12Body) left() int {
	n := 0
	for _, s := range b.segs {
		n += s + 1
	}
	return n
}

type c12RTFunc func(*http.Request) (*http.Response, error)

func (f c12RTFunc) RoundTrip(r *http.Request) (*http.Response, error) { return f(r) }

func c12RunDrain(in c12In) c12Obs {
	var obs c12Obs
	// the body produces no bytes, it only counts: a segment of MiB costs nothing
	u := in.unit()
	body := &c12Body{fin: in.Fin}
	for _, sg := range in.Segs {
		body.segs = append(body.segs, (sg+1)*u-1)
	}
	obs.Panicked, obs.Panic = recoverTo(func() {
		tr := client.KeepAliveTransport(c12RTFunc(func(r *http.Request) (*http.Response, error) {
			return &http.Response{StatusCode: 200, Body: body, Request: r}, nil
		}))
		req, _ := http.NewRequest("GET", "http://example.com/", nil)
		resp, err := tr.RoundTrip(req)
		if err != nil {
			panic(err)
		}
		for _, k := range in.Sizes {
			n, e := resp.Body.Read(make([]byte, k*u))
			code := 0
			if e == io.EOF {
				code = 1
			} else if e != nil {
				code = 2
			}
			obs.Log = append(obs.Log, [2]int{n, code})
		}
		_ = resp.Body.Close()
	})
	obs.Closes, obs.Left, obs.Ended = body.closes, body.left(), body.finished
	return obs
}

// ---------- call ----------

var errC12Src = errors.New("c12: upload source failed")
var errC12Transport = errors.New("c12: transport failed")

type c12Unit struct {
	size int
	ok   bool
}

type c12Src struct {
	name     string
	units    []c12Unit
	closes   int32
	failErr  error // what the failing Read reports (nil: errC12Src), again and again
	withData bool  // the first failing Read hands out some bytes together with the error
	once     bool  // after the failing Read has reported its value once the source reports io.EOF
	failed   bool
}

// the error values an upload source may fail with; only the bare io.EOF is the end of a file
var c12ErrValues = []error{errC12Src, io.ErrUnexpectedEOF, io.EOF, io.ErrClosedPipe, context.Canceled,
	fmt.Errorf("c12: source: %w", io.EOF), fmt.Errorf("c12: source: %w", io.ErrUnexpectedEOF), os.ErrDeadlineExceeded, io.ErrNoProgress}
var c12ErrNames = []string{"custom", "unexpected-eof", "eof", "closed-pipe", "ctx-canceled", "wrapped-eof", "wrapped-unexpected-eof", "deadline-exceeded", "no-progress"}

func c12ErrCode(f c12File) int {
	if f.Err < 0 || f.Err >= len(c12ErrValues) {
		return 0
	}
	return f.Err
}

// what the model is told about that value: the end of the file, a truncated stream, any other error
func c12ErrKind(f c12File) string {
	switch c12ErrCode(f) {
	case 1:
		return "RdTrunc"
	case 2:
		return "RdEnd"
	}
	return "RdErr"
}

func (s *c12Src) Read(p []byte) (int, error) {
	if len(s.units) == 0 {
		return 0, io.EOF
	}
	u := &s.units[0]
	if !u.ok {
		err := s.failErr
		if err == nil {
			err = errC12Src
		}
		if s.once && s.failed {
			return 0, io.EOF
		}
		if s.withData && !s.failed && len(p) > 0 {
			s.failed = true
			n := 10
			if n > len(p) {
				n = len(p)
			}
			for i := 0; i < n; i++ {
				p[i] = 'd'
			}
			return n, err
		}
		s.failed = true
		return 0, err
	}
	n := len(p)
	if n >= u.size {
		n = u.size
		s.units = s.units[1:]
	} else {
		u.size -= n
	}
	for i := 0; i < n; i++ {
		p[i] = 'a'
	}
	return n, nil
}
func (s *c12Src) Close() error { atomic.AddInt32(&s.closes, 1); return nil }
func (s *c12Src) Name() string { return s.name }

type c12SrcCT struct{ *c12Src }

func (c12SrcCT) ContentType() string { return "application/octet-stream" }

var errC12Reset = errors.New("c12: connection reset while the response body was read")
var errC12Cap = errors.New("c12: the stalled exchange was not ended by its deadline")
var errC12Cancelled = errors.New("c12: request cancelled by the http.Client's own Timeout")
var errC12WrongClient = errors.New("c12: the runtime's own transport was used although the operation names a client")

// the response body: size bytes; with a fault the bytes before offset at are delivered, then every Read fails
type c12RespBody struct {
	size, at int
	fault    int // 0 none, 1 reset, 2 truncated, 3 stalls until the context ends
	withData bool
	ctx      context.Context
	cancel   <-chan struct{}
	cap      time.Duration
	pos      int32
	closes   int32
}

func (b *c12RespBody) limit() int {
	if b.fault != 0 {
		return b.at
	}
	return b.size
}

func (b *c12RespBody) fail() error {
	switch b.fault {
	case 1:
		return errC12Reset
	case 2:
		return io.ErrUnexpectedEOF
	}
	select {
	case <-b.ctx.Done():
		return b.ctx.Err()
	case <-b.cancel:
		return errC12Cancelled
	case <-time.After(b.cap):
		return errC12Cap
	}
}

func (b *c12RespBody) Read(p []byte) (int, error) {
	// like a body of net/http: once the context of the exchange has ended nothing more can be read. (Only for a body
	// without a scripted fault: a scripted fault decides by itself what a Read reports and when.)
	if b.fault == 0 && b.ctx != nil {
		if err := b.ctx.Err(); err != nil {
			return 0, err
		}
	}
	pos, lim := int(atomic.LoadInt32(&b.pos)), b.limit()
	if pos >= lim {
		if b.fault != 0 {
			return 0, b.fail()
		}
		return 0, io.EOF
	}
	n := len(p)
	if n > lim-pos {
		n = lim - pos
	}
	for i := 0; i < n; i++ {
		p[i] = 'r'
	}
	atomic.StoreInt32(&b.pos, int32(pos+n))
	if b.fault != 0 && b.withData && pos+n == lim {
		return n, b.fail()
	}
	return n, nil
}
func (b *c12RespBody) Close() error { atomic.AddInt32(&b.closes, 1); return nil }
func (b *c12RespBody) left() int   { return b.limit() - int(atomic.LoadInt32(&b.pos)) }

type c12NoLog struct{}

func (c12NoLog) Printf(string, ...interface{}) {}
func (c12NoLog) Debugf(string, ...interface{}) {}

// c12Settle is how long the runtime is given to let the goroutine exit and the files be closed: 2 s unless
// VERIF_C12_SETTLE_MS says otherwise (used by the mutation self-test to keep leaking mutants quick).
func c12Settle() time.Duration {
	if v := os.Getenv("VERIF_C12_SETTLE_MS"); v != "" {
		if n, err := strconv.Atoi(v); err == nil && n > 0 {
			return time.Duration(n) * time.Millisecond
		}
	}
	return 2 * time.Second
}

func c12Goroutines() int {
	buf := make([]byte, 1<<20)
	n := runtime.Stack(buf, true)
	return strings.Count(string(buf[:n]), "client.(*request).buildHTTP.func")
}

func c12RunCall(in c12In) c12Obs {
	var obs c12Obs
	var srcs []*c12Src
	for i, f := range in.Files {
		s := &c12Src{name: fmt.Sprintf("dir/file%d.bin", i), failErr: c12ErrValues[c12ErrCode(f)], withData: f.WithData, once: f.Once}
		if !f.Declared {
			if !f.SniffOK && f.SniffGot > 0 && f.SniffGot < 512 { // the failure comes after some bytes of the sniffing window
				got := f.SniffGot
				if f.WithData && got > 500 {
					// bytes next to the error must not fill the window: io.ReadFull drops the error of a Read that completes the buffer
					got = 500
				}
				s.units = append(s.units, c12Unit{got, true})
			}
			s.units = append(s.units, c12Unit{512, f.SniffOK})
		}
		for _, ok := range f.Chunks {
			s.units = append(s.units, c12Unit{700, ok})
		}
		srcs = append(srcs, s)
	}
	baseline := c12Goroutines()
	host := "example.com"
	var respBody *c12RespBody
	var reqBodyClosed int32
	stub := c12RTFunc(func(req *http.Request) (*http.Response, error) {
		closeBody := func() {
			if req.Body != nil {
				_ = req.Body.Close()
				atomic.StoreInt32(&reqBodyClosed, 1)
			}
		}
		if in.Stall {
			var err error
			select {
			case <-req.Context().Done():
				err = req.Context().Err()
			case <-req.Cancel: // how net/http tells a RoundTripper of its own that Client.Timeout has passed
				err = errC12Cancelled
			case <-time.After(in.stallCap()):
				err = errC12Cap
			}
			closeBody()
			return nil, err
		}
		var bodyErr error
		if req.Body != nil {
			switch {
			case in.Reads < 0:
				_, bodyErr = io.Copy(io.Discard, req.Body)
			case in.Reads > 0:
				_, bodyErr = io.ReadFull(req.Body, make([]byte, 10))
				if bodyErr == io.EOF || bodyErr == io.ErrUnexpectedEOF {
					bodyErr = nil
				}
			}
		}
		closeBody()
		if bodyErr != nil {
			return nil, bodyErr
		}
		if in.Fail {
			return nil, errC12Transport
		}
		ct := "application/json"
		if in.Resp == 1 {
			ct = "application/x-nobody-consumes-this"
		} else if in.Binary {
			ct = "application/octet-stream"
		}
		respBody = &c12RespBody{size: in.respSize(), at: in.faultAt(), fault: in.RespFault, withData: in.RespFaultWithData,
			ctx: req.Context(), cancel: req.Cancel, cap: in.stallCap()}
		return &http.Response{StatusCode: 200, Status: "200 OK", Proto: "HTTP/1.1", ProtoMajor: 1, ProtoMinor: 1,
			ContentLength: int64(in.respSize()),
			Header:        http.Header{"Content-Type": {ct}}, Body: respBody, Request: req}, nil
	})
	var transport http.RoundTripper = stub
	if in.Real {
		host = "127.0.0.1:1"
		transport = &http.Transport{DisableKeepAlives: true}
	}
	// the http.Client in use: the runtime's own, one handed to NewWithClient, one named by the operation
	var r *client.Runtime
	var opClient *http.Client
	rtSchemes, opSchemes := in.schemeLists()
	switch in.ClientKind {
	case 1:
		r = client.NewWithClient(host, "/", rtSchemes, &http.Client{Transport: transport, Timeout: in.clientTimeout()})
	case 2:
		r = client.New(host, "/", rtSchemes)
		r.Transport = c12RTFunc(func(req *http.Request) (*http.Response, error) {
			if req.Body != nil {
				_ = req.Body.Close()
			}
			return nil, errC12WrongClient
		})
		opClient = &http.Client{Transport: transport, Timeout: in.clientTimeout()}
	default:
		r = client.New(host, "/", rtSchemes)
		r.Transport = transport
	}
	if in.KeepAlive {
		if opClient != nil {
			opClient.Transport = client.KeepAliveTransport(transport) // the caller's client: the caller's business
		} else {
			r.EnableConnectionReuse()
		}
	}
	r.Debug = in.Debug
	r.SetLogger(c12NoLog{})
	errParam, errAuth, errReader := errors.New("c12: parameter refused"), errors.New("c12: auth refused"), errors.New("c12: reader refused")
	writer := rt.ClientRequestWriterFunc(func(req rt.ClientRequest, _ strfmt.Registry) error {
		if in.setsTimeout() {
			_ = req.SetTimeout(in.timeout())
		}
		if in.NValues > 0 {
			vals := make([]string, in.NValues)
			for i := range vals {
				vals[i] = fmt.Sprintf("value-%d", i)
			}
			_ = req.SetFormParam("k", vals...)
		}
		for i, f := range in.Files {
			var nr rt.NamedReadCloser = srcs[i]
			if f.Declared {
				nr = c12SrcCT{srcs[i]}
			}
			_ = req.SetFileParam(fmt.Sprintf("file%d", i), nr)
		}
		if in.ParamErr {
			return errParam
		}
		return nil
	})
	var auth rt.ClientAuthInfoWriter
	if in.Auth != 0 {
		auth = rt.ClientAuthInfoWriterFunc(func(req rt.ClientRequest, _ strfmt.Registry) error {
			if in.Asks {
				_ = req.GetBody()
			}
			if in.Auth == 2 {
				return errAuth
			}
			return nil
		})
	}
	pattern := "/upload"
	if in.LateErr {
		pattern = "/upload/%zz"
	}
	op := &rt.ClientOperation{
		ID: "up", Method: "POST", PathPattern: pattern, ProducesMediaTypes: []string{"application/json"},
		ConsumesMediaTypes: []string{"multipart/form-data"}, Schemes: opSchemes,
		Params: writer, AuthInfo: auth, Client: opClient,
		Reader: rt.ClientResponseReaderFunc(func(resp rt.ClientResponse, _ rt.Consumer) (interface{}, error) {
			if _, err := io.ReadFull(resp.Body(), make([]byte, c12ReaderNeeds)); err != nil {
				return nil, err // the response is not complete
			}
			if in.Resp == 2 {
				return nil, errReader
			}
			return "done", nil
		}),
	}
	start := time.Now()
	if in.CallParentMs != 0 {
		ctx, cancel := context.WithDeadline(context.Background(), start.Add(time.Duration(in.CallParentMs)*time.Millisecond))
		defer cancel()
		op.Context = ctx
	}
	type out struct {
		res interface{}
		err error
		pn  bool
		msg string
	}
	ch := make(chan out, 1)
	go func() {
		var o out
		o.pn, o.msg = recoverTo(func() { o.res, o.err = r.Submit(op) })
		ch <- o
	}()
	var o out
	select {
	case o = <-ch:
	case <-time.After(40 * time.Second):
		o.err = errors.New("watchdog: Submit did not return")
		obs.InTime = false
	}
	elapsed := time.Since(start)
	obs.ElapsedMs = elapsed.Milliseconds()
	obs.ElapsedNs = elapsed.Nanoseconds()
	obs.Panicked, obs.Panic = o.pn, o.msg
	obs.OK = o.err == nil && !o.pn
	if o.err != nil {
		obs.Err = o.err.Error()
	}
	// whether a timed call came back by its effective deadline is decided inside Coq (Check_C12.in_time);
	// here only the watchdog
	obs.InTime = o.err == nil || !strings.HasPrefix(o.err.Error(), "watchdog:")
	// let the runtime settle: poll up to 2 s for the goroutine to be gone and every source to be closed
	returned := time.Now()
	deadline := returned.Add(c12Settle())
	for {
		gone := c12Goroutines() <= baseline
		closed := true
		for _, s := range srcs {
			if atomic.LoadInt32(&s.closes) == 0 {
				closed = false
			}
		}
		// the response body is closed by Submit itself, before it returns: no need to wait long for that
		respClosed := respBody == nil || atomic.LoadInt32(&respBody.closes) > 0 || time.Since(returned) > 100*time.Millisecond
		if (gone && closed && respClosed) || time.Now().After(deadline) {
			obs.GoroutineGone = gone
			break
		}
		time.Sleep(2 * time.Millisecond)
	}
	for _, s := range srcs {
		obs.FileCloses = append(obs.FileCloses, int(atomic.LoadInt32(&s.closes)))
	}
	if respBody != nil {
		obs.RespOpened, obs.RespCloses, obs.RespLeft = 1, int(atomic.LoadInt32(&respBody.closes)), respBody.left()
	}
	obs.ReqBodyClosed = atomic.LoadInt32(&reqBodyClosed) == 1
	return obs
}

// ---------- reuse: sequential calls against a real server ----------

// the body the real transport handed out, counted: what is taken off the connection through it, whether its end was seen,
// how often it was closed. It sits UNDER the keep-alive wrapper, so a draining Close reads through it.
type c12CountedBody struct {
	io.ReadCloser
	rec *c12ExchObs
	mu  *sync.Mutex
}

func (b *c12CountedBody) Read(p []byte) (int, error) {
	n, err := b.ReadCloser.Read(p)
	b.mu.Lock()
	b.rec.Taken += int64(n)
	if err == io.EOF {
		b.rec.Ended = true
	}
	b.mu.Unlock()
	return n, err
}

func (b *c12CountedBody) Close() error {
	b.mu.Lock()
	b.rec.Closes++
	b.mu.Unlock()
	return b.ReadCloser.Close()
}

type c12CountingRT struct {
	wrapped http.RoundTripper
	mu      sync.Mutex
	recs    []*c12ExchObs
}

func (t *c12CountingRT) RoundTrip(req *http.Request) (*http.Response, error) {
	res, err := t.wrapped.RoundTrip(req)
	if err != nil {
		return res, err
	}
	rec := &c12ExchObs{}
	t.mu.Lock()
	t.recs = append(t.recs, rec)
	t.mu.Unlock()
	res.Body = &c12CountedBody{ReadCloser: res.Body, rec: rec, mu: &t.mu}
	return res, nil
}

// c12RunReuse: a real HTTP server on the loopback interface, a real http.Transport, ONE Runtime, the calls of the history one
// after the other. Observed are logical facts only: per response body the bytes taken off the connection, whether its end was
// seen, its Close count; the number of connections the server accepted.
func c12RunReuse(in c12In) c12Obs {
	var obs c12Obs
	var newConns int32
	piece := make([]byte, 32<<10)
	for i := range piece {
		piece[i] = 'x'
	}
	srv := httptest.NewUnstartedServer(http.HandlerFunc(func(rw http.ResponseWriter, req *http.Request) {
		n, _ := strconv.Atoi(req.URL.Query().Get("n"))
		rw.Header().Set("Content-Type", "application/octet-stream")
		if !in.Chunked {
			rw.Header().Set("Content-Length", strconv.Itoa(n))
		}
		rw.WriteHeader(http.StatusOK)
		for n > 0 {
			k := len(piece)
			if k > n {
				k = n
			}
			if _, err := rw.Write(piece[:k]); err != nil {
				return
			}
			if in.Chunked {
				if f, ok := rw.(http.Flusher); ok {
					f.Flush()
				}
			}
			n -= k
		}
	}))
	srv.Config.ConnState = func(_ net.Conn, st http.ConnState) {
		if st == http.StateNew {
			atomic.AddInt32(&newConns, 1)
		}
	}
	srv.Start()
	defer srv.Close()
	hu, err := url.Parse(srv.URL)
	if err != nil {
		obs.Panicked, obs.Panic = true, "c12: "+err.Error()
		return obs
	}
	tr := &http.Transport{}
	defer tr.CloseIdleConnections()
	counting := &c12CountingRT{wrapped: tr}
	var r *client.Runtime
	if in.ClientKind == 1 {
		r = client.NewWithClient(hu.Host, "/", []string{"http"}, &http.Client{Transport: counting})
	} else {
		r = client.New(hu.Host, "/", []string{"http"})
		r.Transport = counting
	}
	if in.KeepAlive {
		r.EnableConnectionReuse()
	}
	r.SetLogger(c12NoLog{})
	done := make(chan struct{})
	go func() {
		defer close(done)
		obs.Panicked, obs.Panic = recoverTo(func() {
			for _, c := range in.Calls {
				c := c
				before := len(counting.recs)
				_, err := r.Submit(&rt.ClientOperation{
					ID: "blob", Method: "GET", PathPattern: "/blob", ProducesMediaTypes: []string{"application/octet-stream"},
					ConsumesMediaTypes: []string{"application/json"}, Schemes: []string{"http"},
					Params: rt.ClientRequestWriterFunc(func(req rt.ClientRequest, _ strfmt.Registry) error {
						return req.SetQueryParam("n", strconv.Itoa(c.Size))
					}),
					Reader: rt.ClientResponseReaderFunc(func(resp rt.ClientResponse, _ rt.Consumer) (interface{}, error) {
						if c.ReadAll {
							_, e := io.Copy(io.Discard, resp.Body())
							return "all", e
						}
						_, e := io.ReadFull(resp.Body(), make([]byte, c.Take))
						return "some", e
					}),
				})
				var e c12ExchObs
				counting.mu.Lock()
				if len(counting.recs) == before+1 {
					e = *counting.recs[before]
				}
				counting.mu.Unlock()
				e.OK = err == nil && len(counting.recs) == before+1
				if err != nil {
					e.Err = err.Error()
				}
				obs.Exch = append(obs.Exch, e)
			}
		})
	}()
	select {
	case <-done:
	case <-time.After(60 * time.Second):
		return c12Obs{Panicked: true, Panic: "watchdog: the history of calls did not end"}
	}
	obs.Conns = int(atomic.LoadInt32(&newConns))
	obs.InTime = true
	return obs
}

// c12NormReuse keeps a history within bounds (replay and corpus inputs are taken as they come)
func c12NormReuse(in c12In) c12In {
	if len(in.Calls) > 8 {
		in.Calls = in.Calls[:8]
	}
	calls := append([]c12Exch(nil), in.Calls...)
	for i := range calls {
		c := &calls[i]
		if c.Size < 1 {
			c.Size = 1
		}
		if c.Size > 16<<20 {
			c.Size = 16 << 20
		}
		// a reader that takes exactly everything may or may not be told of the end with the last bytes: left out
		if c.Take < 0 {
			c.Take = 0
		}
		if c.Take >= c.Size {
			c.Take = c.Size - 1
		}
		if c.ReadAll {
			c.Take = 0
		}
	}
	in.Calls = calls
	if in.ClientKind != 1 {
		in.ClientKind = 0
	}
	return in
}

// ---------- deadline ----------

func c12RunDeadline(in c12In) c12Obs {
	var obs c12Obs
	var dl time.Time
	var has bool
	transport := c12RTFunc(func(req *http.Request) (*http.Response, error) {
		dl, has = req.Context().Deadline()
		return &http.Response{StatusCode: 200, Status: "200 OK", Proto: "HTTP/1.1", ProtoMajor: 1, ProtoMinor: 1,
			Header: http.Header{"Content-Type": {"application/json"}}, Body: io.NopCloser(strings.NewReader("{}")), Request: req}, nil
	})
	var r *client.Runtime
	var opClient *http.Client
	switch in.ClientKind {
	case 1:
		r = client.NewWithClient("example.com", "/", []string{"http"}, &http.Client{Transport: transport, Timeout: in.clientTimeout()})
	case 2:
		r = client.New("example.com", "/", []string{"http"})
		r.Transport = c12RTFunc(func(req *http.Request) (*http.Response, error) { return nil, errC12WrongClient })
		opClient = &http.Client{Transport: transport, Timeout: in.clientTimeout()}
	default:
		r = client.New("example.com", "/", []string{"http"})
		r.Transport = transport
	}
	start := time.Now()
	op := &rt.ClientOperation{
		ID: "d", Method: "GET", PathPattern: "/d", ProducesMediaTypes: []string{"application/json"},
		ConsumesMediaTypes: []string{"application/json"}, Schemes: []string{"http"},
		Params: rt.ClientRequestWriterFunc(func(req rt.ClientRequest, _ strfmt.Registry) error {
			if in.KeepDefault {
				return nil
			}
			return req.SetTimeout(in.timeout())
		}),
		Reader: rt.ClientResponseReaderFunc(func(rt.ClientResponse, rt.Consumer) (interface{}, error) { return nil, nil }),
		Client: opClient,
	}
	if in.ParentMs >= 0 {
		ctx, cancel := context.WithDeadline(context.Background(), start.Add(time.Duration(in.ParentMs)*time.Millisecond))
		defer cancel()
		if in.RuntimeCtx {
			r.Context = ctx
		} else {
			op.Context = ctx
		}
	}
	r.Debug = in.Debug
	r.SetLogger(c12NoLog{})
	obs.Panicked, obs.Panic = recoverTo(func() { _, _ = r.Submit(op) })
	obs.DurationNs = time.Since(start).Nanoseconds() + 1
	obs.HasDeadline = has
	if has {
		obs.DeadlineNs = dl.Sub(start).Nanoseconds()
	}
	obs.InTime = true
	return obs
}

func (c12) Run(inAny any) any {
	in := inAny.(c12In)
	if in.DefaultMs != 0 && (in.Kind == "call" || in.Kind == "deadline") {
		client.DefaultTimeout = in.defaultTimeout()
		defer func() { client.DefaultTimeout = c12OrigDefault }()
	}
	switch in.Kind {
	case "drain":
		return c12RunDrain(in)
	case "deadline":
		return c12RunDeadline(in)
	case "reuse":
		return c12RunReuse(in)
	}
	return c12RunCall(in)
}

// ---------- rendering ----------

func c12Nats(xs []int) string { return coqList(xs, func(x int) string { return coqNatBig(x) }) }

func (c12) Coq(inAny any, obsAny any) string {
	in, obs := inAny.(c12In), obsAny.(c12Obs)
	switch in.Kind {
	case "drain":
		fin := []string{"FEof", "FEofWithData", "FErr"}[in.Fin]
		// segments and Read sizes in units, what was observed in bytes (binary numbers: a body may hold MiB)
		log := coqList(obs.Log, func(e [2]int) string { return coqPair(coqN(uint64(e[0])), coqNat(e[1])) })
		return fmt.Sprintf("CDrain %s %s %s %s %s %d %s %s", coqN(uint64(in.unit())), c12Nats(in.Segs), fin, c12Nats(in.Sizes), log, obs.Closes, coqN(uint64(obs.Left)), coqBool(obs.Ended))
	case "deadline":
		parent, observed := "None", "None"
		if in.ParentMs >= 0 {
			parent = "(Some " + coqZ(in.ParentMs*1000000) + ")"
		}
		if obs.HasDeadline {
			observed = "(Some " + coqZ(obs.DeadlineNs) + ")"
		}
		return fmt.Sprintf("CDeadline %s %s %s %s %s", parent, coqZ(in.deadlineTimeout().Nanoseconds()), coqZ(in.clientTimeout().Nanoseconds()), observed, coqZ(obs.DurationNs))
	}
	if in.Kind == "reuse" {
		calls := make([]string, 0, len(in.Calls))
		for i, c := range in.Calls {
			var e c12ExchObs
			if i < len(obs.Exch) {
				e = obs.Exch[i]
			}
			calls = append(calls, fmt.Sprintf("(mkxo %s %s %s %s %d %s)", coqN(uint64(c.Size)), coqBool(c.ReadAll), coqN(uint64(e.Taken)),
				coqBool(e.Ended), e.Closes, coqBool(e.OK && !obs.Panicked)))
		}
		return fmt.Sprintf("CReuse %s [%s] %d", coqBool(in.KeepAlive), strings.Join(calls, "; "), obs.Conns)
	}
	files := coqList(in.Files, func(f c12File) string {
		rd := func(ok bool) string {
			if ok {
				return "RdOk"
			}
			return c12ErrKind(f)
		}
		return fmt.Sprintf("(mksf %s %s %s %s %s)", coqBool(f.Declared), rd(f.Declared || f.SniffOK), coqList(f.Chunks, rd), coqBool(f.WithData), coqBool(f.Once))
	})
	auth := "ANone"
	switch in.Auth {
	case 1:
		auth = "(AOk " + coqBool(in.Asks) + ")"
	case 2:
		auth = "(AFail " + coqBool(in.Asks) + ")"
	}
	reads := in.Reads
	tr := ""
	debug := in.Debug
	// a scheme net/http does not speak: the real transport refuses the request without reading its body, and so does the
	// transport inside the Debug dump of the request (Submit then returns the dump's error): for the model both are a transport
	// that fails after 0 reads. A stub RoundTripper of the caller is handed the request whatever the scheme.
	refused := in.netHTTPRefusesScheme() && (in.Real || in.Debug)
	if refused {
		debug = false
	}
	if in.Fail || in.Real || in.Stall || refused {
		if reads < 0 {
			reads = 200 // more than any program has writes: to the end
		}
		if in.Real || in.Stall || refused {
			reads = 0
		}
		tr = fmt.Sprintf("(TFail %d)", reads)
	} else {
		ctype := "CtConsumed"
		if in.Resp == 1 {
			ctype = "CtUnknown"
		} else if in.Binary {
			ctype = "CtBinary"
		}
		fault := "RFNone"
		if in.RespFault != 0 {
			fault = "RFLate"
			if in.faultAt() < c12ReaderNeeds {
				fault = "RFEarly"
			}
		}
		resp := fmt.Sprintf("(mkrb %s %s %s)", ctype, coqBool(in.Resp == 2), fault)
		if reads < 0 {
			tr = "(TRespond None " + resp + ")"
		} else {
			tr = fmt.Sprintf("(TRespond (Some %d) %s)", reads, resp)
		}
	}
	sc := fmt.Sprintf("(mksc %s %s %s %s %s)", coqBool(in.ParamErr), auth, coqBool(in.LateErr), tr, coqBool(debug))
	parent := "None"
	if in.CallParentMs != 0 {
		parent = "(Some " + coqZ(in.CallParentMs*1000000) + ")"
	}
	tm := fmt.Sprintf("(mktm %s %s %s %s %s)", coqBool(in.timed()), parent, coqZ(in.effTimeout().Nanoseconds()), coqZ(in.clientTimeout().Nanoseconds()), coqZ(obs.ElapsedNs))
	if !in.timed() {
		tm = "(mktm false None 0%Z 0%Z 0%Z)"
	}
	o := fmt.Sprintf("(mkco %s %s %s %d %d %s %s %s)", coqBool(obs.OK), c12Nats(obs.FileCloses), coqBool(obs.GoroutineGone),
		obs.RespOpened, obs.RespCloses, coqN(uint64(obs.RespLeft)), coqBool(obs.ReqBodyClosed), coqBool(obs.InTime && !obs.Panicked))
	return fmt.Sprintf("CCall %d %s %s %s %s %s", in.NValues, files, sc, coqBool(in.KeepAlive), o, tm)
}

func (c12) Classify(inAny any, obsAny any) []string {
	in, obs := inAny.(c12In), obsAny.(c12Obs)
	// F-C12-5 (fixed, f5633e1): Debug on, a response with a printable type read without fault: the dump closes the
	// body it has copied and the Close deferred before the dump closed it again. The entry is closed, so the tag
	// excuses nothing: a case that shows the double Close again is reported as a VIOLATION like any other; the
	// tag only names the old defect in the report.
	if in.Kind == "call" && in.Debug && in.RespFault == 0 && (in.Resp == 1 || !in.Binary) &&
		obs.RespOpened == 1 && obs.RespCloses == 2 && obs.GoroutineGone && !obs.Panicked {
		for _, c := range obs.FileCloses {
			if c != 1 {
				return nil
			}
		}
		return []string{"lifecycle.debug_dump_closes_response_body_twice"}
	}
	// F-C12-6 (fixed): an upload source that reports io.ErrUnexpectedEOF ONCE inside the sniffing window and io.EOF afterwards was
	// taken for a short file by the sniffing io.ReadFull: the part was sent truncated and the call succeeded. Since the repair
	// (readHead: only io.EOF is the end of the source) the entry is closed, so the tag excuses nothing: a case that shows the
	// pattern again is reported as a VIOLATION like any other; the tag only names the old defect in the report.
	if in.Kind == "call" && obs.OK && !obs.Panicked && !in.ParamErr && obs.GoroutineGone && obs.RespCloses == obs.RespOpened && obs.InTime {
		swallowed, other := false, false
		for i, f := range in.Files {
			if i < len(obs.FileCloses) && obs.FileCloses[i] != 1 {
				other = true
			}
			failsAtSniff := !f.Declared && !f.SniffOK
			failsInCopy := false
			for _, ok := range f.Chunks {
				failsInCopy = failsInCopy || !ok
			}
			switch {
			case failsAtSniff && f.Once && c12ErrCode(f) == 1:
				swallowed = true
			case (failsAtSniff || failsInCopy) && c12ErrCode(f) != 2:
				other = true
			}
		}
		if swallowed && !other && (!in.KeepAlive || obs.RespLeft == 0) {
			return []string{"lifecycle.unexpected_eof_once_in_sniff_window_taken_for_short_file"}
		}
	}
	return nil
}

func (c12) Category(inAny any, obsAny any) (string, bool) {
	in := inAny.(c12In)
	switch in.Kind {
	case "drain":
		// how much was still unread when Close was called
		total := 0
		for _, sg := range in.Segs {
			total += (sg + 1) * in.unit()
		}
		for _, e := range obsAny.(c12Obs).Log {
			total -= e[0]
		}
		size := "unread<64K"
		switch {
		case total >= 2<<20:
			size = "unread>=2M"
		case total >= 256<<10:
			size = "unread>=256K"
		case total >= 64<<10:
			size = "unread>=64K"
		}
		return "drain/" + []string{"eof", "eof-with-data", "error"}[in.Fin] + "/" + size, len(in.Segs) > 0
	case "deadline":
		p := "parent"
		if in.ParentMs < 0 {
			p = "noparent"
		}
		if in.ParentMs >= 0 && in.RuntimeCtx {
			p = "runtime-parent"
		}
		t := "timeout"
		switch d := in.timeout(); {
		case in.KeepDefault:
			t = "default-timeout-kept"
		case d == in.defaultTimeout():
			t = "timeout-equal-to-default"
		case d == 0:
			t = "notimeout"
		case d < 0:
			t = "negative-timeout"
		case d < time.Millisecond:
			t = "tiny-timeout"
		}
		if in.DefaultMs != 0 {
			t += "(default-set-by-app)"
		}
		if in.ParentMs >= 0 && in.deadlineTimeout() > 0 {
			if time.Duration(in.ParentMs)*time.Millisecond > in.deadlineTimeout() {
				p += "-later"
			} else {
				p += "-sooner"
			}
		}
		return "deadline/" + p + "/" + t + c12ClientClass(in), true
	}
	if in.Kind == "reuse" {
		all, none := true, true
		for _, c := range in.Calls {
			all, none = all && c.ReadAll, none && !c.ReadAll
		}
		rd := "mixed"
		if none {
			rd = "all-leave-unread"
		} else if all {
			rd = "all-read-to-end"
		}
		ka := "plain"
		if in.KeepAlive {
			ka = "reuse-enabled"
		}
		enc := "content-length"
		if in.Chunked {
			enc = "chunked"
		}
		return fmt.Sprintf("reuse/real-server/%s/calls%d/%s/%s%s", ka, len(in.Calls), rd, enc, c12ClientClass(in)), len(in.Calls) > 0
	}
	if in.ParamErr {
		return "call/param-error", true
	}
	a := []string{"noauth", "auth-ok", "auth-fails"}[in.Auth]
	if in.Auth != 0 && in.Asks {
		a += "+getbody"
	}
	if in.LateErr {
		a += "/url-error"
	}
	if len(in.RtSchemes) != 0 || len(in.OpSchemes) != 0 {
		from := "operation"
		if len(in.RtSchemes) != 0 {
			from = "runtime"
		}
		switch sch := in.scheme(); sch {
		case "http", "https":
			a += "/scheme-" + sch + "-of-" + from
		case "ws", "wss":
			a += "/scheme-websocket-of-" + from
		default:
			a += "/scheme-other-of-" + from
		}
	}
	t := "answers"
	switch {
	case in.Real:
		t = "real-transport-refused"
	case in.Stall:
		t = "stalled/" + c12DeadlineClass(in)
	case in.Fail:
		t = "fails"
	default:
		t += "/" + []string{"read", "no-consumer", "reader-fails"}[in.Resp]
		if in.Binary && in.Resp != 1 {
			t += "/binary"
		}
		if in.RespFault != 0 {
			t += "/body-" + []string{"", "reset", "truncated", "stalls"}[in.RespFault]
			if in.faultAt() < c12ReaderNeeds {
				t += "-early"
			} else {
				t += "-late"
			}
			if in.RespFault == 3 {
				t += "/" + c12DeadlineClass(in)
			}
		}
		if in.KeepAlive {
			t += "/reuse"
		}
	}
	if in.Debug {
		t += "/debug"
	}
	if !in.Fail && !in.Stall && !in.Real && in.respSize() >= 200<<10 {
		t += "/resp-big"
	}
	t += c12ClientClass(in)
	rd := "all"
	if in.Reads == 0 {
		rd = "none"
	} else if in.Reads > 0 {
		rd = "some"
	}
	failing := "sources-ok"
	for _, f := range in.Files {
		where := ""
		if !f.Declared && !f.SniffOK {
			where = "sniff"
		}
		for _, ok := range f.Chunks {
			if !ok && where == "" {
				where = "copy"
			}
		}
		if where != "" {
			failing = "source-fails@" + where + ":" + c12ErrNames[c12ErrCode(f)]
			if c12ErrCode(f) == 2 {
				failing = "source-ends-early@" + where
			}
			if f.WithData {
				failing += "+data"
			}
			if f.Once {
				failing += "+once"
			}
			break
		}
	}
	return "call/" + a + "/" + t + "/body-" + rd + "/" + failing, true
}

// which http.Client is in use and how its own Timeout relates to the request timeout
func c12ClientClass(in c12In) string {
	if in.ClientKind == 0 {
		return ""
	}
	c := []string{"", "/client-of-runtime", "/client-of-operation"}[in.ClientKind]
	ct, rt := in.clientTimeout(), in.deadlineTimeout()
	if in.Kind == "call" {
		rt = in.effTimeout()
	}
	switch {
	case ct == 0:
	case ct < 0:
		c += "+negative-client-timeout"
	case rt <= 0 || ct > rt:
		c += "+longer-client-timeout"
	default:
		c += "+shorter-client-timeout"
	}
	return c
}

// which bound ends a timed call
func c12DeadlineClass(in c12In) string {
	t := "default-timeout"
	if in.DefaultMs != 0 {
		t = "default-timeout-set-by-app"
	}
	if in.setsTimeout() && in.timeout() == in.defaultTimeout() {
		t = "timeout-equal-to-default"
	} else if in.setsTimeout() {
		switch d := in.timeout(); {
		case d == 0:
			t = "no-timeout"
		case d < 0:
			t = "negative-timeout"
		case d < time.Millisecond:
			t = "tiny-timeout"
		default:
			t = "timeout"
		}
	}
	switch {
	case in.CallParentMs < 0:
		t += "+parent-passed"
	case in.CallParentMs > 0:
		t += "+parent"
		if e := in.effTimeout(); e > 0 && time.Duration(in.CallParentMs)*time.Millisecond > e {
			t += "-later"
		}
	}
	return t
}

// ---------- generator ----------

// request timeouts: none, negative (an already exhausted budget), tiny, ordinary (nanoseconds)
var c12TimeoutsNs = []int64{0, -1, -1000, -1_000_000, -3600_000_000_000, 1, 1000, 1_000_000, 50_000_000, 3600_000_000_000, 9000_000_000_000}

// bounds of a timed call: (timeout ns, SetTimeout called, caller deadline ms, client.DefaultTimeout set by the application in ms
// or 0); each ends the call within about 60 ms. From index 14 on: the DEFAULT timeout is what bounds the call (the parameters
// never call SetTimeout, or set the very value of the default) - alone, with a caller deadline far later, a little later, sooner.
// New entries go to the end: the enumeration names some by index.
var c12TimedBounds = []struct {
	ns     int64
	set    bool
	parent int64
	def    int64
}{
	{-1, true, 0, 0}, {-1_000_000, true, 0, 0}, {-3600_000_000_000, true, 0, 0}, {1, true, 0, 0}, {1000, true, 0, 0}, {30_000_000, true, 0, 0}, {60_000_000, true, 0, 0},
	{0, true, 40, 0}, {0, true, -5, 0}, {0, false, 25, 0}, {3600_000_000_000, true, 30, 0}, {20_000_000, true, 3600_000, 0}, {-1_000_000, true, 3600_000, 0}, {1000, true, -3600_000, 0},
	{0, false, 0, 40}, {0, false, 3600_000, 40}, {0, false, 4000, 30}, {40_000_000, true, 3600_000, 40}, {0, false, 20, 3600_000}, {0, false, 30, 50}, {50_000_000, true, 7200_000, 3600_000},
}

const c12FirstDefaultBound = 14

func c12SetBound(in *c12In, k int) {
	b := c12TimedBounds[k%len(c12TimedBounds)]
	in.TimeoutMs, in.TimeoutNs, in.HasTimeout, in.CallParentMs, in.DefaultMs = 0, b.ns, b.set, b.parent, b.def
}

func c12GenFiles(r *rand.Rand, allowFail bool) []c12File {
	var fs []c12File
	for j := 1 + r.Intn(3); j > 0; j-- {
		f := c12File{Declared: r.Intn(3) == 0, SniffOK: true, Chunks: []bool{}}
		for k := r.Intn(4); k > 0; k-- {
			f.Chunks = append(f.Chunks, true)
		}
		fs = append(fs, f)
	}
	if allowFail && r.Intn(2) == 0 { // one failing Read, placed anywhere, with any error value
		f := &fs[r.Intn(len(fs))]
		if r.Intn(3) > 0 {
			f.Err = r.Intn(len(c12ErrValues))
		}
		f.WithData = r.Intn(4) == 0
		f.Once = r.Intn(4) == 0
		f.SniffGot = []int{0, 0, 1, 100, 511}[r.Intn(5)]
		pos := r.Intn(len(f.Chunks) + 1)
		if pos == len(f.Chunks) {
			if f.Declared {
				f.Chunks = append(f.Chunks, false)
			} else {
				f.SniffOK = false
			}
		} else {
			f.Chunks[pos] = false
		}
	}
	return fs
}

func (c12) Gen(r *rand.Rand, tier string, i int) any {
	switch k := r.Intn(10); {
	case k < 4:
		in := c12In{Kind: "drain", Fin: r.Intn(3)}
		for j := r.Intn(5); j > 0; j-- {
			in.Segs = append(in.Segs, []int{0, 1, 4, 9, 99, 1999}[r.Intn(6)])
		}
		for j := r.Intn(7); j > 0; j-- {
			in.Sizes = append(in.Sizes, []int{0, 1, 2, 5, 10, 100, 3000}[r.Intn(7)])
		}
		if r.Intn(3) == 0 { // a big body: hundreds of KiB to MiB (now and then more) still unread at Close
			in.Unit = []int{1024, 1024, 4096, 1000, 4099, 65536}[r.Intn(6)]
			in.Segs, in.Sizes = nil, nil
			for j := 1 + r.Intn(4); j > 0; j-- {
				in.Segs = append(in.Segs, []int{0, 15, 63, 199, 254, 255, 256, 300, 511, 1023, 2047}[r.Intn(11)])
			}
			for j := r.Intn(4); j > 0; j-- {
				in.Sizes = append(in.Sizes, []int{0, 1, 1, 8, 32, 256}[r.Intn(6)])
			}
		}
		return in
	case k < 5:
		in := c12In{Kind: "deadline", ParentMs: -1, Debug: r.Intn(4) == 0}
		if r.Intn(2) == 0 {
			in.ParentMs = []int64{0, 1, 3600_000, 7200_000, int64(3600_000 * (1 + r.Intn(5)))}[r.Intn(5)]
			in.RuntimeCtx = r.Intn(3) == 0
		}
		switch r.Intn(4) {
		case 0:
			in.TimeoutMs = int64(3600_000*(1+r.Intn(5)) + r.Intn(1000))
		case 1:
			in.TimeoutNs = c12TimeoutsNs[r.Intn(len(c12TimeoutsNs))]
		case 2: // any sign, any magnitude
			in.TimeoutNs = (r.Int63n(2_000_000) - 1_000_000) * []int64{1, 1000, 1_000_000}[r.Intn(3)]
		}
		if r.Intn(3) == 0 { // the default timeout is what applies: never set, or set to the very value (or next to it); now and then the application has changed the default
			if r.Intn(4) == 0 {
				in.DefaultMs = []int64{50, 1000, 1800_000, 5400_000, 86400_000}[r.Intn(5)]
			}
			in.TimeoutMs, in.TimeoutNs = 0, 0
			switch r.Intn(4) {
			case 0:
				in.TimeoutNs = in.defaultTimeout().Nanoseconds()
			case 1:
				in.TimeoutNs = in.defaultTimeout().Nanoseconds() + []int64{-1, 1, -1_000_000, 1_000_000}[r.Intn(4)]
			default:
				in.KeepDefault = true
			}
			if r.Intn(4) != 0 {
				in.ParentMs = []int64{0, 1, 10_000, 29_999, 30_000, 30_001, 60_000, 3600_000, 7200_000, 86400_000}[r.Intn(10)]
				in.RuntimeCtx = r.Intn(3) == 0
			}
		}
		if r.Intn(2) == 0 { // an http.Client of the caller, with or without a Timeout of its own
			in.ClientKind = 1 + r.Intn(2)
			in.ClientTimeoutMs = []int64{0, 1, 50, 1800_000, 3600_000, 5400_000, 36000_000, -3}[r.Intn(8)]
		}
		return in
	}
	if r.Intn(30) == 0 { // a history of calls on one Runtime against a real server
		in := c12In{Kind: "reuse", KeepAlive: r.Intn(3) > 0, Chunked: r.Intn(2) == 0, ClientKind: r.Intn(2)}
		for j := 1 + r.Intn(4); j > 0; j-- {
			c := c12Exch{Size: []int{10, 5000, 64<<10 + 1, 300_000, 1 << 20, 2<<20 + 17}[r.Intn(6)], ReadAll: r.Intn(5) == 0}
			if !c.ReadAll {
				c.Take = []int{0, 1, 16, 100, 4096, c.Size / 2}[r.Intn(6)]
			}
			in.Calls = append(in.Calls, c)
		}
		return c12NormReuse(in)
	}
	in := c12In{Kind: "call", NValues: r.Intn(4), Auth: r.Intn(3), Asks: r.Intn(2) == 0, LateErr: r.Intn(6) == 0,
		Fail: r.Intn(2) == 0, Reads: []int{-1, -1, 0, 1}[r.Intn(4)], Resp: r.Intn(3), KeepAlive: r.Intn(2) == 0, ParamErr: r.Intn(15) == 0}
	// a failing source together with a transport that answers after reading only part of the body is left
	// out: whether the failing Read is reached then depends on pipe write boundaries, which the model abstracts
	in.Debug = r.Intn(3) == 0
	allowFail := in.Fail || in.Reads <= 0 || in.Debug // the Debug dump of the request reads the whole body
	in.Files = c12GenFiles(r, allowFail)
	if !in.Fail {
		in.Binary = r.Intn(4) == 0
		if r.Intn(3) == 0 { // the response body fails while it is read, anywhere
			in.RespSize = []int{100, 130, 3000}[r.Intn(3)]
			in.RespFault = 1 + r.Intn(2)
			in.RespFaultAt = r.Intn(in.RespSize + 1)
			in.RespFaultWithData = r.Intn(2) == 0
			if r.Intn(12) == 0 {
				in.RespFault = 3
				c12SetBound(&in, r.Intn(1000))
			}
		}
	} else if r.Intn(25) == 0 {
		in.Stall, in.Reads = true, 0
		c12SetBound(&in, r.Intn(1000))
	}
	if !in.Fail && in.RespFault != 3 && r.Intn(8) == 0 { // a big response of which the reader takes 100 bytes
		in.RespSize = []int{200 << 10, 300_000, 1 << 20, 2<<20 + 17}[r.Intn(4)]
		if in.RespFault != 0 {
			in.RespFaultAt = r.Intn(in.RespSize + 1)
		}
	}
	if r.Intn(5) == 0 { // the scheme selected for the call: named by the runtime or by the operation, one the transport speaks or not
		l := c12SchemeLists[r.Intn(len(c12SchemeLists))]
		if r.Intn(2) == 0 {
			in.RtSchemes = l
			if r.Intn(2) == 0 {
				in.OpSchemes = c12SchemeLists[r.Intn(len(c12SchemeLists))]
			}
		} else {
			in.OpSchemes = l
		}
		if !in.Stall && r.Intn(4) == 0 { // through the real http.Transport (nobody listens there)
			in.Real, in.Fail, in.Reads = true, true, 0
			in.Binary, in.RespSize, in.RespFault, in.RespFaultAt, in.RespFaultWithData = false, 0, 0, 0, false
		}
	}
	if r.Intn(3) == 0 { // an http.Client of the caller
		in.ClientKind = 1 + r.Intn(2)
		if in.timed() {
			// its own Timeout: none, shorter than every bound of c12TimedBounds that lies ahead, far longer, negative
			in.ClientTimeoutMs = []int64{0, 8, 3600_000, 3600_000, -5}[r.Intn(5)]
		} else {
			in.ClientTimeoutMs = []int64{0, 3600_000, 36000_000, -5}[r.Intn(4)]
		}
	}
	return in
}

// c12EnumErrValues: every error value x every failing position (the sniffing window after 0 / 100 / 511 bytes, every Read of the
// copy, the Read after the last chunk) of a declared and of a sniffed upload x the ways the request body gets consumed to its end
// (GetBody in the auth writer; the transport reading everything, then answering or failing; the Debug dump) x the error alone or
// together with some bytes.
func c12EnumErrValues() []any {
	var out []any
	type pos struct {
		declared bool
		at       int // -1: the sniff; k: chunk k
		got      int
	}
	var places []pos
	for _, k := range []int{0, 1, 2} {
		places = append(places, pos{true, k, 0})
	}
	for _, g := range []int{0, 100, 511} {
		places = append(places, pos{false, -1, g})
	}
	for _, k := range []int{0, 1} {
		places = append(places, pos{false, k, 0})
	}
	for code := range c12ErrValues {
		for pi, pl := range places {
			for sc := 0; sc < 4; sc++ {
				for _, wd := range []bool{false, true} {
					if wd && (code+pi+sc)%2 == 1 { // with data: every other combination
						continue
					}
					f := c12File{Declared: pl.declared, SniffOK: true, Chunks: []bool{true, true, true}, Err: code, WithData: wd}
					if pl.declared || pl.at >= 0 {
						f.Chunks = f.Chunks[:c12Min(3, pl.at+2)]
						f.Chunks[pl.at] = false
					} else {
						f.SniffOK, f.SniffGot = false, pl.got
					}
					in := c12In{Kind: "call", NValues: (code + pi) % 2, Files: []c12File{f}, Reads: -1, KeepAlive: (code+sc)%2 == 0}
					if pi%3 == 1 { // a healthy file before and after the failing one
						ok := c12File{Declared: pi%2 == 0, SniffOK: true, Chunks: []bool{true}}
						in.Files = []c12File{ok, f, ok}
					}
					switch sc {
					case 0:
						in.Auth, in.Asks = 1, true
					case 1: // the transport reads everything, then answers
					case 2:
						in.Debug = true
					case 3:
						in.Fail = true
					}
					out = append(out, in)
					// the same with a source that is not sticky: the value is reported once, io.EOF afterwards
					if !wd && (pl.at < 0 || (code+pi+sc)%3 == 0) {
						in2 := in
						in2.Files = append([]c12File(nil), in.Files...)
						for i := range in2.Files {
							if !in2.Files[i].SniffOK || len(in2.Files[i].Chunks) > 0 && !in2.Files[i].Chunks[len(in2.Files[i].Chunks)-1] {
								in2.Files[i].Once = true
							}
						}
						out = append(out, in2)
					}
				}
			}
		}
	}
	return out
}

// scheme lists a runtime is created with / an operation names: what a swagger 2.0 document may declare (http, https, ws, wss),
// in any order and number, other spellings, and strings a caller may pass
var c12SchemeLists = [][]string{
	{"https"}, {"http", "https"}, {"ws"}, {"wss"}, {"ws", "wss"}, {"wss", "http"}, {"ws", "https"}, {"HTTP"}, {"Https"},
	{"ftp"}, {"unix"}, {"h2c"}, {"http+unix"}, {"x"},
}

// c12EnumSchemes: every scheme list, named by the runtime or by the operation x the goroutine's programs x what the transport in
// use does (a stub of the caller failing before / after reading the body or answering; the real http.Transport) x auth writer x Debug
func c12EnumSchemes(progs [][]c12File) []any {
	var out []any
	type tb struct {
		fail, real bool
		reads      int
	}
	tbs := []tb{{true, false, 0}, {true, false, -1}, {false, false, -1}, {false, false, 0}, {true, true, 0}}
	for li, l := range c12SchemeLists {
		for pi, files := range progs {
			for ti, t := range tbs {
				for di, dbg := range []bool{false, true} {
					in := c12In{Kind: "call", NValues: (li + pi + ti) % 2, Files: files, Fail: t.fail, Real: t.real, Reads: t.reads, Debug: dbg,
						KeepAlive: !t.fail && (li+pi)%2 == 0, ClientKind: (li + ti + di) % 3}
					if (li+pi+ti+di)%2 == 0 {
						in.OpSchemes = l
					} else {
						in.RtSchemes = l
						if (li+ti)%3 == 0 {
							in.OpSchemes = []string{"http"}
						}
					}
					if (pi+ti+di)%3 == 0 {
						in.Auth, in.Asks = 1, (li+di)%2 == 0
					}
					out = append(out, in)
				}
			}
		}
	}
	return out
}

func c12Min(a, b int) int {
	if a < b {
		return a
	}
	return b
}

// c12EnumReuse: histories of calls on one Runtime against a real server: connection reuse enabled or not x the runtime's own
// client or one of the caller x Content-Length or chunked x what the readers leave unread (a lot, a little that is already
// buffered, nothing; bodies from 10 bytes to 5 MiB).
func c12EnumReuse() []any {
	var out []any
	hists := [][]c12Exch{
		{{Size: 1 << 20, Take: 16}, {Size: 1 << 20, Take: 16}, {Size: 1 << 20, Take: 16}},
		{{Size: 300_000, Take: 0}, {Size: 1 << 20, ReadAll: true}, {Size: 64<<10 + 1, Take: 4096}, {Size: 2<<20 + 17, Take: 100}},
		{{Size: 10, Take: 3}, {Size: 5000, Take: 100}, {Size: 100, Take: 0}},
		{{Size: 5 << 20, Take: 1 << 20}, {Size: 5 << 20, Take: 1}},
		{{Size: 1 << 20, Take: 16}},
		{{Size: 70_000, ReadAll: true}, {Size: 70_000, ReadAll: true}, {Size: 1 << 20, Take: 1000}, {Size: 20, ReadAll: true}, {Size: 1 << 20, Take: 0}},
	}
	for _, ka := range []bool{true, false} {
		for kind := 0; kind < 2; kind++ {
			for _, chunked := range []bool{false, true} {
				for _, h := range hists {
					out = append(out, c12NormReuse(c12In{Kind: "reuse", KeepAlive: ka, ClientKind: kind, Chunked: chunked, Calls: h}))
				}
			}
		}
	}
	return out
}

func (c12) Enumerate(tier string) []any {
	var out []any
	for _, segs := range [][]int{nil, {0}, {4}, {4, 0, 9}} {
		for fin := 0; fin < 3; fin++ {
			for _, sizes := range [][]int{nil, {0}, {1}, {3, 0, 1}, {100}, {5, 100, 100}, {0, 0}, {5}} {
				out = append(out, c12In{Kind: "drain", Segs: segs, Fin: fin, Sizes: sizes})
			}
		}
	}
	progs := [][]c12File{
		{{Declared: true, SniffOK: true, Chunks: []bool{true}}},
		{{Declared: false, SniffOK: true, Chunks: []bool{true, true}}},
		{{Declared: false, SniffOK: true, Chunks: []bool{true}}, {Declared: true, SniffOK: true, Chunks: []bool{true, false, true}}},
		{{Declared: false, SniffOK: false, Chunks: []bool{true}}},
	}
	type tb struct {
		fail  bool
		reads int
		resp  int
	}
	for pi, files := range progs {
		for _, nv := range []int{0, 1} {
			for auth := 0; auth < 3; auth++ {
				for _, asks := range []bool{false, true} {
					if auth == 0 && asks {
						continue
					}
					for _, late := range []bool{false, true} {
						for _, t := range []tb{{true, 0, 0}, {true, 1, 0}, {true, -1, 0}, {false, -1, 0}, {false, -1, 1}, {false, -1, 2}, {false, 0, 0}} {
							if late && !(t.fail && t.reads == 0) {
								continue // after a URL error the transport is never reached
							}
							if pi >= 2 && !t.fail && t.reads > 0 {
								continue
							}
							out = append(out, c12In{Kind: "call", NValues: nv, Files: files, Auth: auth, Asks: asks, LateErr: late,
								Fail: t.fail, Reads: t.reads, Resp: t.resp, KeepAlive: !t.fail && (pi+nv)%2 == 0})
						}
					}
				}
			}
			out = append(out, c12In{Kind: "call", NValues: nv, Files: files, ParamErr: true, Fail: true, Reads: 0})
			out = append(out, c12In{Kind: "call", NValues: nv, Files: files, Real: true, Fail: true, Reads: 0})
		}
	}
	out = append(out, c12In{Kind: "call", NValues: 1, Files: progs[1], Stall: true, Fail: true, Reads: 0, TimeoutMs: 60})
	out = append(out, c12In{Kind: "call", NValues: 0, Files: progs[0], Stall: true, Fail: true, Reads: 0, TimeoutMs: 120, Auth: 1, Asks: true})
	// a stalled transport under every kind of bound: negative, tiny, ordinary timeout; the caller's deadline alone,
	// shorter, longer, already passed; Debug on and off
	for k := range c12TimedBounds {
		for _, dbg := range []bool{false, true} {
			in := c12In{Kind: "call", NValues: k % 2, Files: progs[k%2], Stall: true, Fail: true, Reads: 0, Debug: dbg, KeepAlive: k%3 == 0}
			c12SetBound(&in, k)
			out = append(out, in)
		}
	}
	// the response body fails at every offset (before, at and after what the response reader reads, up to its very end)
	// x Debug on/off x connection reuse on/off; reset and truncation alternate, so does error-with-data
	const size = 130
	for at := 0; at <= size; at++ {
		for _, dbg := range []bool{false, true} {
			for _, ka := range []bool{false, true} {
				if tier != "thorough" && at > 3 && at < 97 && at%4 != 0 { // quick: every offset near 0, around the reader's need and to the end; every 4th in between
					continue
				}
				out = append(out, c12In{Kind: "call", NValues: at % 2, Files: progs[0], Reads: -1, Debug: dbg, KeepAlive: ka,
					RespSize: size, RespFault: 1 + at%2, RespFaultAt: at, RespFaultWithData: (at/2)%2 == 0, Binary: at%5 == 4, Resp: []int{0, 0, 0, 2, 1}[at%5]})
			}
		}
	}
	// ... and stalls there until the deadline ends the exchange
	for i, at := range []int{0, 50, 100, size} {
		for j, dbg := range []bool{false, true} {
			for _, ka := range []bool{false, true} {
				in := c12In{Kind: "call", Files: progs[0], Reads: -1, Debug: dbg, KeepAlive: ka, RespSize: size, RespFault: 3, RespFaultAt: at}
				c12SetBound(&in, 2*i+j+3)
				out = append(out, in)
			}
		}
	}
	// a complete response: every content type x reader behaviour x Debug x reuse
	for _, dbg := range []bool{false, true} {
		for _, ka := range []bool{false, true} {
			for resp := 0; resp < 3; resp++ {
				for _, bin := range []bool{false, true} {
					if bin && resp == 1 {
						continue
					}
					out = append(out, c12In{Kind: "call", Files: progs[1], Reads: -1, Debug: dbg, KeepAlive: ka, Resp: resp, Binary: bin, RespSize: 100})
					out = append(out, c12In{Kind: "call", NValues: 1, Files: progs[3], Reads: 0, Debug: dbg, KeepAlive: ka, Resp: resp, Binary: bin, Auth: 1})
				}
			}
		}
	}
	// big bodies: 200 KiB ... 2 MiB (and once 128 MiB) still unread at Close, in one segment or several, around 256 KiB
	// to the unit; the caller reads nothing, a little, or a lot first
	for _, unit := range []int{1024, 4096, 65536} {
		for _, segs := range [][]int{{199}, {254}, {255}, {256}, {511}, {2047}, {63, 63, 63, 63, 63}, {1023, 0, 1023}} {
			if unit == 65536 && len(segs) == 1 && segs[0] != 2047 && segs[0] != 255 {
				continue
			}
			for fin := 0; fin < 3; fin++ {
				for _, sizes := range [][]int{nil, {1}, {0}, {8, 8}, {300}} {
					out = append(out, c12In{Kind: "drain", Unit: unit, Segs: segs, Fin: fin, Sizes: sizes})
				}
			}
		}
	}
	// ... and as the response of a call with connection reuse: the reader takes 100 bytes, Submit closes the body
	for _, size := range []int{200 << 10, 256<<10 + 99, 256<<10 + 100, 256<<10 + 101, 1 << 20, 2<<20 + 17} {
		for _, dbg := range []bool{false, true} {
			for resp := 0; resp < 3; resp++ {
				out = append(out, c12In{Kind: "call", Files: progs[0], Reads: -1, Debug: dbg, KeepAlive: true, Resp: resp, RespSize: size, Binary: size%2 == 1})
			}
		}
		// the body fails far behind what the reader takes: the drain meets the fault
		out = append(out, c12In{Kind: "call", Files: progs[1], Reads: -1, KeepAlive: true, RespSize: size, RespFault: 1 + size%2, RespFaultAt: size - 1000, ClientKind: 2})
	}
	// the http.Client in use x its own Timeout (none, shorter than the bound, far longer, negative) x what bounds the call
	// (request timeout alone, caller deadline alone, the shorter of both either way round, the default timeout) x where
	// the exchange stalls (before the response, in its body). The call has to be back by the deadline of the request
	// timeout and the context; a shorter client Timeout may end it earlier.
	for kind := 1; kind <= 2; kind++ {
		for _, ct := range []int64{0, 8, 3600_000, -5} {
			for _, k := range []int{5, 6, 7, 9, 10, 11} { // 30 ms; 60 ms; deadline 40 ms; default timeout + deadline 25 ms; 1 h + deadline 30 ms; 20 ms + deadline 1 h
				for _, body := range []bool{false, true} {
					in := c12In{Kind: "call", NValues: k % 2, Files: progs[k%2], ClientKind: kind, ClientTimeoutMs: ct, KeepAlive: (k+kind)%2 == 0}
					if body {
						in.Reads, in.RespSize, in.RespFault, in.RespFaultAt = -1, 130, 3, 50
					} else {
						in.Stall, in.Fail = true, true
					}
					c12SetBound(&in, k)
					out = append(out, in)
				}
			}
		}
		// untimed calls through that client
		for _, ct := range []int64{0, 3600_000} {
			for resp := 0; resp < 3; resp++ {
				for _, ka := range []bool{false, true} {
					out = append(out, c12In{Kind: "call", NValues: 1, Files: progs[2], Reads: -1, Resp: resp, KeepAlive: ka, ClientKind: kind, ClientTimeoutMs: ct, Auth: 1, Asks: resp == 1})
					out = append(out, c12In{Kind: "call", Files: progs[0], Fail: true, Reads: 1, KeepAlive: ka, ClientKind: kind, ClientTimeoutMs: ct})
				}
			}
		}
		// the deadline the transport sees
		for _, p := range []int64{-1, 0, 7200_000} {
			for _, t := range []int64{0, -1, 1_000_000, 3600_000_000_000, 9000_000_000_000} {
				for _, ct := range []int64{0, 1, 50, 1800_000, 5400_000, 36000_000, -3} {
					out = append(out, c12In{Kind: "deadline", ParentMs: p, TimeoutNs: t, ClientKind: kind, ClientTimeoutMs: ct, RuntimeCtx: p >= 0 && ct%2 == 0})
				}
			}
		}
	}
	out = append(out, c12EnumErrValues()...)
	out = append(out, c12EnumReuse()...)
	out = append(out, c12EnumSchemes(progs)...)
	// the default request timeout (never set by the parameters, or set to its very value) against a caller deadline that is
	// absent, passed, sooner, next to it, later, far later; the default left at 30 s or changed by the application
	for _, def := range []int64{0, 50, 5400_000} {
		d := c12In{DefaultMs: def}.defaultTimeout()
		dms := d.Milliseconds()
		for i, p := range []int64{-1, 0, dms / 2, dms - 1, dms, dms + 1, 2 * dms, 7200_000, 86400_000} {
			for mode := 0; mode < 3; mode++ {
				in := c12In{Kind: "deadline", ParentMs: p, DefaultMs: def, RuntimeCtx: p >= 0 && (i+mode)%2 == 0, Debug: (i+mode)%5 == 0}
				switch mode {
				case 0:
					in.KeepDefault = true
				case 1:
					in.TimeoutNs = d.Nanoseconds()
				default:
					in.TimeoutNs = d.Nanoseconds() + 1
				}
				out = append(out, in)
				if mode == 0 && i%2 == 0 {
					in.ClientKind, in.ClientTimeoutMs = 1+i%2, []int64{0, 3600_000}[(i/2)%2]
					out = append(out, in)
				}
			}
		}
	}
	// a call bound by the default timeout (see c12TimedBounds) that stalls in the middle of the response body
	for k := c12FirstDefaultBound; k < len(c12TimedBounds); k++ {
		for _, at := range []int{0, 50} {
			in := c12In{Kind: "call", Files: progs[0], Reads: -1, KeepAlive: k%2 == 0, Debug: at == 0 && k%3 == 0, RespSize: 130, RespFault: 3, RespFaultAt: at, ClientKind: k % 3}
			c12SetBound(&in, k)
			out = append(out, in)
		}
	}
	for _, p := range []int64{-1, 0, 7200_000} {
		for _, t := range c12TimeoutsNs {
			out = append(out, c12In{Kind: "deadline", ParentMs: p, TimeoutNs: t})
			if p >= 0 {
				out = append(out, c12In{Kind: "deadline", ParentMs: p, TimeoutNs: t, RuntimeCtx: true, Debug: t%2 == 0})
			}
		}
	}
	return out
}
