#!/bin/sh
# tools/reseed_par.sh — the kill matrix (tools/reseed_all.py) with four property groups running side by side.
# Run ./setup.sh first and make sure nothing else edits /verif; every group works on different properties, so the
# only shared state is the up-to-date Coq build.
cd "$(dirname "$0")/.."
python3 tools/reseed_all.py C01 C05 C09 C13 C17 > /tmp/reseed-g1.log 2>&1 &
python3 tools/reseed_all.py C02 C06 C10 C14 C18 > /tmp/reseed-g2.log 2>&1 &
python3 tools/reseed_all.py C03 C07 C11 C15 C19 > /tmp/reseed-g3.log 2>&1 &
python3 tools/reseed_all.py C04 C08 C12 C16 C20 > /tmp/reseed-g4.log 2>&1 &
wait
cat /tmp/reseed-g1.log /tmp/reseed-g2.log /tmp/reseed-g3.log /tmp/reseed-g4.log | grep -- '->' | sort -V > seeded/KILL_MATRIX.txt
grep -c 'caught' seeded/KILL_MATRIX.txt; grep -v 'caught' seeded/KILL_MATRIX.txt
rm -f /tmp/reseed-g?.log
