#!/usr/bin/env python3
"""tools/integrate.py Cxx [Cyy ...] — marks properties as claimed, merges their staged known findings
(known_findings.d/Cxx.json) into known_findings.json with fix commits remapped to /repo's main by subject,
and regenerates MANIFEST.json."""
import json, os, subprocess, sys
ROOT = os.path.dirname(os.path.dirname(os.path.abspath(__file__)))

def git(*a):
    return subprocess.run(["git", "-C", "/repo", *a], capture_output=True, text=True).stdout.strip()

main_log = {l.split(" ", 1)[1]: l.split(" ", 1)[0] for l in git("log", "--format=%h %s", "main").splitlines() if " " in l}
kf_path = os.path.join(ROOT, "known_findings.json")
kf = json.load(open(kf_path))
for pid in sys.argv[1:]:
    p = os.path.join(ROOT, "props.d", pid + ".json")
    cfg = json.load(open(p)); cfg["claimed"] = True
    json.dump(cfg, open(p, "w"), indent=1)
    staged = os.path.join(ROOT, "known_findings.d", pid + ".json")
    if os.path.exists(staged):
        kf["findings"] = [e for e in kf["findings"] if e.get("property") != pid]
        for e in json.load(open(staged)).get("findings", []):
            if e.get("commit"):
                subj = git("show", "-s", "--format=%s", e["commit"])
                if subj in main_log:
                    e["commit"] = main_log[subj]
                else:
                    print(f"WARNING {pid} {e['id']}: commit {e['commit']} ({subj[:60]}) not found on main")
            kf["findings"].append(e)
        os.remove(staged)
# keep every recorded fix commit pointing at /repo's main (commits may have been rebased): remap by subject
for e in kf["findings"]:
    if e.get("commit"):
        subj = git("show", "-s", "--format=%s", e["commit"])
        if subj in main_log and main_log[subj] != e["commit"]:
            e["commit"] = main_log[subj]
json.dump(kf, open(kf_path, "w"), indent=1)
subprocess.run([sys.executable, os.path.join(ROOT, "tools", "genmanifest.py")])
