#!/bin/sh
cd /verif
run() { i=$1; shift; for p in "$@"; do
  out=$(VERIF_DEV=1 tools/seedtest.sh $p seeded/harmless/$i/patch.diff 2>&1)
  echo "refactor $i $p: $(echo "$out" | grep -E '^(OK|VIOLATION|PATCH)' | head -2 | cut -c1-200 | tr '\n' ' ')"
done; }
run 1 C05 C01 C04
run 2 C01 C02 C19 C04 C09
run 3 C08 C09 C19 C07
run 4 C07 C08
run 5 C03 C04
run 6 C06 C09 C03
run7() { for p in C10 C11 C12 C04; do out=$(VERIF_DEV=1 tools/seedtest.sh $p seeded/harmless/7/patch_ported_933ad03.diff 2>&1); echo "refactor 7 $p: $(echo "$out" | grep -E "^(OK|VIOLATION|PATCH)" | head -2 | cut -c1-200 | tr "\n" " ")"; done; }; run7
run 8 C10 C13 C12 C14 C18
run 9 C17 C06 C15
run 10 C16
