#!/bin/sh
# tools/confirm_seed.sh <dir with patch.diff demo_test.go demo_path.txt>
# Confirms a seeded change in a throw-away worktree: (1) the demo passes on the clean tree, (2) with the patch the
# library builds and its whole suite passes, (3) with the patch the demo fails. Prints CONFIRMED or the failing step.
set -u
d="$(readlink -f "$1")"
export GOFLAGS=-mod=mod GOPROXY=off GOSUMDB=off GOTOOLCHAIN=local
wt="/tmp/confirm-seed-$$"
git -C /repo worktree add -q --detach "$wt" HEAD || exit 2
trap 'git -C /repo worktree remove --force "$wt" >/dev/null 2>&1; rm -rf "$wt"' EXIT
pkg="$(cat "$d/demo_path.txt" | tr -d ' \n')"
demo="$wt/$pkg/zz_seed_demo_test.go"
cp "$d/demo_test.go" "$demo"
(cd "$wt/$pkg" && go test -count=1 . >/tmp/confirm-$$.log 2>&1) || { echo "STEP1-FAILED: demo does not pass on the clean tree"; tail -20 /tmp/confirm-$$.log; exit 1; }
rm "$demo"
git -C "$wt" apply "$d/patch.diff" || { echo "PATCH-DOES-NOT-APPLY"; exit 1; }
(cd "$wt" && go build ./... && go test -count=1 ./... >/tmp/confirm-$$.log 2>&1) || { echo "STEP2-FAILED: suite does not pass with the patch"; tail -20 /tmp/confirm-$$.log; exit 1; }
cp "$d/demo_test.go" "$demo"
if (cd "$wt/$pkg" && go test -count=1 . >/tmp/confirm-$$.log 2>&1); then echo "STEP3-FAILED: demo passes with the patch"; exit 1; fi
rm -f /tmp/confirm-$$.log
echo CONFIRMED
