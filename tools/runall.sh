#!/bin/sh
# tools/runall.sh [tier] — runs every claimed check on /repo, prints one line per property.
cd "$(dirname "$0")/.."
tier="${1:-quick}"
for p in $(python3 -c "
import json,glob
for f in sorted(glob.glob('props.d/*.json')):
    c=json.load(open(f))
    if c.get('claimed'): print(c['property_id'])"); do
  out=$(timeout 7200 ./check $p --tier $tier 2>&1); rc=$?
  echo "$p rc=$rc $(echo "$out" | grep -c '^KNOWN-FINDING') known; $(echo "$out" | grep -E '^(OK|VIOLATION)' | head -2 | cut -c1-160 | tr '\n' ' ')"
done
