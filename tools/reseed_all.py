#!/usr/bin/env python3
"""tools/reseed_all.py [Cxx ...] — re-runs the quick check of each property against every kept seeded change
(seeded/<id>-<n>/patch.diff, at /repo HEAD, else at the base recorded in meta.json) and records the outcome in meta.json.
Run when nothing else is editing /verif (it uses the registered, non-dev build)."""
import glob, json, os, re, subprocess, sys
ROOT = os.path.dirname(os.path.dirname(os.path.abspath(__file__)))
want = set(sys.argv[1:])
def find_base(patch):
    """newest commit of /repo main at which the patch applies (later fix: commits may have changed its context)"""
    wt = "/tmp/reseed-findbase-%d" % os.getpid()
    subprocess.run(["git", "-C", "/repo", "worktree", "add", "-q", "--detach", wt, "HEAD"], capture_output=True)
    try:
        for c in subprocess.run(["git", "-C", "/repo", "rev-list", "HEAD"], capture_output=True, text=True).stdout.split():
            subprocess.run(["git", "-C", wt, "checkout", "-q", "--detach", c], capture_output=True)
            if subprocess.run(["git", "-C", wt, "apply", "--check", patch], capture_output=True).returncode == 0:
                return c[:7]
    finally:
        subprocess.run(["git", "-C", "/repo", "worktree", "remove", "--force", wt], capture_output=True)
    return None


rows = []
for d in sorted(glob.glob(os.path.join(ROOT, "seeded", "C*-*")), key=lambda p: (p.split("/")[-1].split("-")[0], int(p.split("-")[-1]))):
    name = os.path.basename(d); pid = name.split("-")[0]
    if want and pid not in want: continue
    mp = os.path.join(d, "meta.json")
    meta = json.load(open(mp)) if os.path.exists(mp) else {}
    def run(base=None, patch="patch.diff"):
        cmd = [os.path.join(ROOT, "tools", "seedtest.sh"), pid, os.path.join(d, patch)] + ([base] if base else [])
        env = dict(os.environ)
        if base:
            env["VERIF_DEV"] = "1"   # an older /repo commit may lack hooks other properties' harness files need: build this property only
        return subprocess.run(cmd, capture_output=True, text=True, env=env).stdout
    out = run()
    used_base = "HEAD"
    if "PATCH-DOES-NOT-APPLY" in out:
        # the same change ported by hand onto a later /repo (later fix: commits rewrote its context)
        for pp in sorted(glob.glob(os.path.join(d, "patch_ported_*.diff")), key=os.path.getmtime, reverse=True):
            o2 = run(patch=os.path.basename(pp))
            if "PATCH-DOES-NOT-APPLY" not in o2:
                out = o2; used_base = "HEAD (" + os.path.basename(pp) + ")"
                break
    if "PATCH-DOES-NOT-APPLY" in out and not meta.get("base"):
        meta["base"] = find_base(os.path.join(d, "patch.diff")) or ""
    if "PATCH-DOES-NOT-APPLY" in out and meta.get("base"):
        out = run(meta["base"]); used_base = meta["base"]
    lines = [l for l in out.splitlines() if l.strip()]
    viol = [l for l in lines if l.startswith("VIOLATION")]
    concrete = [l for l in viol if "no-failing-input-found" not in l]
    broken_build = any("coq build failed" in l or "does not build" in l for l in lines)
    summary = [l[:300] for l in lines if "smallest:" in l][:2]
    if "PATCH-DOES-NOT-APPLY" in out: oc = "patch no longer applies (not re-run)"
    elif broken_build: oc = "NOT DECIDED: the framework build was broken during the run"
    elif concrete: oc = "caught with a concrete failing input"
    elif viol: oc = "caught, no failing input found"
    else: oc = "MISSED"
    meta.update({"check_outcome": oc, "check_violation_lines": viol, "check_summary": summary or meta.get("check_summary", []), "checked_at_repo": used_base})
    json.dump(meta, open(mp, "w"), indent=1)
    rows.append((name, oc)); print(name, "->", oc, flush=True)
n = len(rows); c = sum(1 for _, o in rows if o.startswith("caught")); k = sum(1 for _, o in rows if "concrete" in o)
print(f"{n} seeded changes: {c} caught ({k} with a concrete failing input), {n - c} not caught")
