#!/usr/bin/env python3
"""Regenerates /verif/MANIFEST.json from props.d/*.json (one file per claimed property) and tools/manifest_base.json."""
import glob, json, os
ROOT = os.path.dirname(os.path.dirname(os.path.abspath(__file__)))
base = json.load(open(os.path.join(ROOT, "tools", "manifest_base.json")))
checks, claimed = [], set()
for p in sorted(glob.glob(os.path.join(ROOT, "props.d", "*.json"))):
    c = json.load(open(p))
    if not c.get("claimed", False):
        continue
    pid = c["property_id"]
    claimed.add(pid)
    checks.append({
        "property_id": pid,
        "quick_cmd": f"./check {pid} --tier quick",
        "thorough_cmd": f"./check {pid} --tier thorough",
        "evidence_file": f"/verif/evidence/{pid}.json",
        "replay_cmd_template": f"./check {pid} --replay {{path}}",
        "engine": "coq-proof+correspondence",
        "level_claimed": {"category": "proof", "text": c["level_text"], "design_ref": c.get("design_ref", "DESIGN.md section 6/" + pid)},
        "level_note": c["level_note"],
        "technique": c.get("technique", "machine-checked proof in Coq 8.16.1 of a hand-written model + checked correspondence (differential run of model and implementation, evaluated inside Coq)"),
    })
import subprocess
try:
    out = subprocess.run(["git", "-C", "/repo", "log", "--format=%H %s", "--grep", "^verif hooks"], capture_output=True, text=True).stdout
    base["hooks"]["source_commits"] = [l.split()[0] for l in out.splitlines() if l.strip()]
except Exception:
    pass
base["checks"] = checks
props = [json.loads(l)["id"] for l in open(os.path.join(ROOT, "properties.jsonl"))]
na = {e["property_id"]: e for e in base.get("not_applicable", [])}
out_na = []
for pid in props:
    if pid in claimed:
        continue
    out_na.append(na.get(pid, {"property_id": pid, "reason": "not yet covered by a check in this tree (work in progress; see DESIGN.md)"}))
base["not_applicable"] = out_na
base["engines"][0]["serves_properties"] = sorted(claimed)
json.dump(base, open(os.path.join(ROOT, "MANIFEST.json"), "w"), indent=1)
print("claimed:", sorted(claimed))
