#!/usr/bin/env python3
"""tools/gen_mutprompts.py <round> <n changes> <outdir> — writes one prompt per property for an independent mutator agent:
the property text only (statement, quantifier, anchors), the scratch worktree /tmp/mut<round>-cNN, and the list of seeded
changes already kept (so that a new round aims elsewhere). Nothing from /verif's machinery is mentioned."""
import glob, json, os, sys
ROOT = os.path.dirname(os.path.dirname(os.path.abspath(__file__)))
rnd, n, out = sys.argv[1], int(sys.argv[2]), sys.argv[3]
os.makedirs(out, exist_ok=True)
words = {1: "ONE", 2: "TWO", 3: "THREE", 4: "FOUR"}
for line in open(os.path.join(ROOT, "properties.jsonl")):
    p = json.loads(line); pid = p["id"]; l = pid.lower()
    known = []
    for d in sorted(glob.glob(os.path.join(ROOT, "seeded", pid + "-*"))):
        try:
            m = json.load(open(os.path.join(d, "meta.json")))
            known.append(" - %s (needs: %s)" % (str(m.get("breaks_clause", ""))[:160], str(m.get("needs", ""))[:200]))
        except Exception:
            pass
    q = p.get("quantifier", {})
    anchors = ", ".join(p.get("anchors", {}).get("files", []))
    wt = f"/tmp/mut{rnd}-{l}"; od = f"/tmp/mut{rnd}-{l}-out"
    text = f"""You are testing how robust a Go library's behaviour is against subtle regressions. The library is go-openapi/runtime; you have your own scratch git worktree of it at {wt} (work ONLY there; never touch /repo or /verif; do not read anything under /verif). No network: for every shell call that runs go use `export GOFLAGS=-mod=mod GOPROXY=off GOSUMDB=off GOTOOLCHAIN=local`. Do NOT use `git stash` (it is shared between worktrees): move between changes with saved patch files, `git apply`, `git apply -R` and `git checkout -- .`.

Here is a semantic property the library is supposed to satisfy:

"{p['statement']}"
It is quantified over: {q.get('text', '')}. Anchored in: {anchors}.

Task: produce {words[n]} different, independent, realistic changes (the kind of thing a refactoring, a performance optimisation, a "simplification" replacing hand-written code by a library call or vice versa, an API modernisation, a security hardening, or a careless bug fix could introduce) to the library source, each of which BREAKS this property while the library still compiles and its whole existing test suite still passes (`cd {wt} && go build ./... && go test -count=1 ./...`). Prefer changes that need something specific to manifest — an unusual input or boundary value, a particular combination of options, a multi-step sequence of operations or state carried from an earlier call, a fault at a particular point, a particular interleaving, or two cooperating sites that each look fine alone — NOT ones that ordinary use would expose at once. Aim for clauses, code sites and triggering conditions that the list below does NOT cover. Each change must touch only non-test .go files of the library and must not be guarded by build tags.

These changes are ALREADY KNOWN — do not produce variations of them:
{chr(10).join(known)}

For each change i = 1..{n} create a directory {od}/<i>/ containing:
 - patch.diff  (output of `git diff` in the worktree against HEAD, for this change alone, applied on a clean tree)
 - demo_test.go (a Go test file to be dropped into one package directory of the library, with the right package clause, that FAILS with the change applied and PASSES without it) plus a one-line file demo_path.txt saying which directory it goes in (e.g. middleware or client or . for the module root)
 - meta.json: {{"breaks_clause": "...which part of the property...", "needs": "...what specific input / sequence / combination is needed for it to manifest...", "suite_passes": true, "commands_run": [...]}}
Verify all of it yourself: with the patch applied the full suite passes (without the demo file) and the demo fails; without the patch the demo passes. Leave the worktree clean when you finish. In your final message list the changes in one short paragraph each."""
    open(os.path.join(out, pid + ".txt"), "w").write(text)
print("prompts in", out)
