#!/usr/bin/env python3
"""tools/process_seeds.py Cxx <outdir> — for each <outdir>/<i>/: confirm the seeded change (tools/confirm_seed.sh),
run the property's quick check against it (tools/seedtest.sh), store it as seeded/Cxx-<i>/ with the outcome in meta.json."""
import json, os, re, shutil, subprocess, sys
ROOT = os.path.dirname(os.path.dirname(os.path.abspath(__file__)))
pid, out = sys.argv[1], sys.argv[2]
offset = int(sys.argv[3]) if len(sys.argv) > 3 else 0   # numbering offset for a later round of seeded changes
dev = dict(os.environ)
for i in sorted(d for d in os.listdir(out) if d.isdigit()):
    src = os.path.join(out, i)
    if not os.path.exists(os.path.join(src, "patch.diff")):
        continue
    c = subprocess.run([os.path.join(ROOT, "tools", "confirm_seed.sh"), src], capture_output=True, text=True)
    confirmed = "CONFIRMED" in c.stdout
    s = subprocess.run([os.path.join(ROOT, "tools", "seedtest.sh"), pid, os.path.join(src, "patch.diff")], capture_output=True, text=True, env=dev)
    lines = [l for l in s.stdout.splitlines() if l.strip()]
    viol = [l for l in lines if l.startswith("VIOLATION")]
    concrete = [l for l in viol if "no-failing-input-found" not in l]
    summary = [l[:300] for l in lines if "smallest:" in l][:2]
    n = int(i) + offset
    dst = os.path.join(ROOT, "seeded", f"{pid}-{n}")
    os.makedirs(dst, exist_ok=True)
    for f in ("patch.diff", "demo_test.go", "demo_path.txt"):
        if os.path.exists(os.path.join(src, f)):
            shutil.copy(os.path.join(src, f), dst)
    meta = {}
    try:
        meta = json.load(open(os.path.join(src, "meta.json")))
    except Exception:
        pass
    meta.update({"base": subprocess.run(["git","-C","/repo","rev-parse","--short","HEAD"],capture_output=True,text=True).stdout.strip(), "property": pid, "confirmed": confirmed, "confirm_output": c.stdout.strip()[-300:],
                 "confirmed_by": "tools/confirm_seed.sh (demo passes clean; suite passes with patch; demo fails with patch)",
                 "check_run": f"tools/seedtest.sh {pid} seeded/{pid}-{n}/patch.diff",
                 "check_outcome": "caught with a concrete failing input" if concrete else ("caught, no failing input found" if viol else "MISSED"),
                 "check_violation_lines": viol, "check_summary": summary})
    json.dump(meta, open(os.path.join(dst, "meta.json"), "w"), indent=1)
    print(f"{pid}-{n}: confirmed={confirmed} -> {meta['check_outcome']}  {summary[0][:200] if summary else ''}")
