#!/bin/sh
# tools/seedtest.sh <property id> <patch.diff> [base ref]
# Applies a seeded change to a throw-away worktree of /repo (outside /repo and /verif), runs the
# property's quick check against it through VERIF_REPO, prints the outcome, removes the worktree.
set -u
pid="$1"; patch="$(readlink -f "$2")"; base="${3:-HEAD}"
wt="/tmp/seedtest-$pid-$$"
git -C /repo worktree add -q --detach "$wt" "$base" || exit 2
trap 'git -C /repo worktree remove --force "$wt" >/dev/null 2>&1; rm -rf "$wt"' EXIT
if ! git -C "$wt" apply "$patch"; then echo "PATCH-DOES-NOT-APPLY"; exit 2; fi
cd "$(dirname "$0")/.."
VERIF_REPO="$wt" VERIF_EVIDENCE_DIR="/tmp/seedtest-ev-$$" ./check "$pid" --tier quick
rc=$?
rm -rf "/tmp/seedtest-ev-$$"
echo "seedtest: property=$pid patch=$patch exit=$rc"
exit $rc
