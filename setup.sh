#!/bin/sh
# Builds the framework from files on disk only (offline): full .vo build of the Coq development,
# and a warm-up build of the Go harness against /repo.
set -e
cd "$(dirname "$0")"
export GOFLAGS=-mod=mod GOPROXY=off GOSUMDB=off GOTOOLCHAIN=local
python3 - <<'PY'
import importlib.machinery, importlib.util, os
loader = importlib.machinery.SourceFileLoader("check", os.path.join(os.getcwd(), "check"))
spec = importlib.util.spec_from_loader("check", loader)
m = importlib.util.module_from_spec(spec); loader.exec_module(m)
m.gen_coqproject()
open(".work-tags", "w").write(" ".join(["verif"] + m.claimed_tags()))
PY
timeout 3000 make -j16 -C coq
mkdir -p .work/setup
sed "s#=> /repo#=> ${VERIF_REPO:-/repo}#" harness/go.mod > .work/setup/go.mod
cp "${VERIF_REPO:-/repo}/go.sum" .work/setup/go.sum
(cd harness && timeout 900 go build -tags "$(cat ../.work-tags)" -modfile ../.work/setup/go.mod -o ../.work/setup/harness .)
rm -rf .work/setup .work-tags
echo setup ok
